//go:build verif

package context

// Harness vocabulary for package context (see harness/decimal/vocab.go).

import (
	"math/big"
	"strconv"

	"github.com/db47h/decimal"
)

var vReplayCfg = map[string]int64{}
var vReplayVal = map[string]string{}
var vFailures []string
var vAssumeBroken []string
var vLastPanic interface{}

type vStop struct{}

func vLookup(name string) (*big.Int, bool) {
	s, ok := vReplayVal[name]
	if !ok {
		return nil, false
	}
	v, ok := new(big.Int).SetString(s, 10)
	return v, ok
}

func vCfg(name string) int {
	v, ok := vReplayCfg[name]
	if !ok {
		panic("vCfg: missing key " + name)
	}
	return int(v)
}

func vCfgOr(name string, def int) int {
	v, ok := vReplayCfg[name]
	if !ok {
		return def
	}
	return int(v)
}

func vU64(name string, lo, hi uint64) uint64 {
	v, ok := vLookup(name)
	if !ok {
		return lo
	}
	if !v.IsUint64() || v.Uint64() < lo || v.Uint64() > hi {
		vAssumeBroken = append(vAssumeBroken, "range of "+name)
		panic(vStop{})
	}
	return v.Uint64()
}

func vI64(name string, lo, hi int64) int64 {
	v, ok := vLookup(name)
	if !ok {
		return lo
	}
	if !v.IsInt64() || v.Int64() < lo || v.Int64() > hi {
		vAssumeBroken = append(vAssumeBroken, "range of "+name)
		panic(vStop{})
	}
	return v.Int64()
}

func vBool(name string) bool {
	v, ok := vLookup(name)
	return ok && v.Sign() != 0
}

func vN(prefix string, i int) string { return prefix + strconv.Itoa(i) }

func vAssume(c bool) {
	if !c {
		vAssumeBroken = append(vAssumeBroken, "vAssume")
		panic(vStop{})
	}
}

func vAssert(id string, c bool) {
	if !c {
		vFailures = append(vFailures, id)
	}
}

func vReach(id string)       {}
func vAnd(a, b bool) bool    { return a && b }
func vOr(a, b bool) bool     { return a || b }
func vImp(a, b bool) bool    { return !a || b }
func vWitness(id string, c bool) {}

// vCatch: 0 no panic, 1 panic with a decimal.ErrNaN value, 2 any other panic.
func vCatch(f func()) (kind int) {
	defer func() {
		if r := recover(); r != nil {
			if _, stop := r.(vStop); stop {
				panic(r)
			}
			vLastPanic = r
			if _, ok := r.(decimal.ErrNaN); ok {
				kind = 1
			} else {
				kind = 2
			}
		}
	}()
	f()
	return 0
}
