//go:build verif

package context

import (
	"errors"

	"github.com/db47h/decimal"
)

// C19: Context operations round to the context and latch the first NaN.

var errOther = errors.New("some earlier error")

func mkCtx() *Context {
	c := &Context{prec: uint32(vCfgOr("cp", 3)), mode: decimal.RoundingMode(vU64("c.mode", 0, 5))}
	return c
}

// operand classes: 0 finite value, 1 +Inf, 2 -Inf, 3 zero, 4 nil pointer (provokes a runtime panic)
func operand(name string, cls int) *decimal.Decimal {
	switch cls {
	case 1:
		return new(decimal.Decimal).SetInf(false)
	case 2:
		return new(decimal.Decimal).SetInf(true)
	case 3:
		return new(decimal.Decimal)
	case 4:
		return nil
	}
	// the arithmetic itself is C01's business: concrete magnitudes, symbolic sign
	v := int64(1234567)
	if name == "y" {
		v = 89
	}
	d := decimal.NewDecimal(v, -3)
	if vBool(name + ".neg") {
		d.Neg(d)
	}
	return d
}

func doOp(c *Context, op int, z, x, y, u *decimal.Decimal) *decimal.Decimal {
	switch op {
	case 0:
		return c.Add(z, x, y)
	case 1:
		return c.Sub(z, x, y)
	case 2:
		return c.Mul(z, x, y)
	case 3:
		return c.Quo(z, x, y)
	case 4:
		return c.FMA(z, x, y, u)
	case 5:
		return c.Sqrt(z, x)
	case 6:
		return c.Neg(z, x)
	case 7:
		return c.Abs(z, x)
	case 8:
		return c.Set(z, x)
	}
	return nil
}

func refOp(op int, z, x, y, u *decimal.Decimal) {
	switch op {
	case 0:
		z.Add(x, y)
	case 1:
		z.Sub(x, y)
	case 2:
		z.Mul(x, y)
	case 3:
		z.Quo(x, y)
	case 4:
		z.FMA(x, y, u)
	case 5:
		z.Sqrt(x)
	case 6:
		z.Neg(x)
	case 7:
		z.Abs(x)
	case 8:
		z.Set(x)
	}
}

type zsnap struct {
	prec uint
	mode decimal.RoundingMode
	acc  decimal.Accuracy
	neg  bool
	inf  bool
	zero bool
	copy *decimal.Decimal
}

func snapZ(z *decimal.Decimal) zsnap {
	return zsnap{z.Prec(), z.Mode(), z.Acc(), z.Signbit(), z.IsInf(), z.IsZero(), new(decimal.Decimal).Copy(z)}
}

func sameZ(z *decimal.Decimal, s zsnap) bool {
	ok := vAnd(z.Prec() == s.prec, vAnd(z.Mode() == s.mode, vAnd(z.Acc() == s.acc, vAnd(z.Signbit() == s.neg, vAnd(z.IsInf() == s.inf, z.IsZero() == s.zero)))))
	return vAnd(ok, z.Cmp(s.copy) == 0)
}

// H_C19_op: one context operation from an arbitrary context/receiver state.
//
//	cfg: op, cx, cy (operand classes), pre (1: an error is already latched)
func H_C19_op() {
	op, cx, cy, pre := vCfg("op"), vCfgOr("cx", 0), vCfgOr("cy", 0), vCfgOr("pre", 0)
	c := mkCtx()
	if pre == 1 {
		c.err = errOther
	}
	x := operand("x", cx)
	y := operand("y", cy)
	u := operand("u", vCfgOr("cu", 0))
	// receiver: any precision and mode, some value
	z := new(decimal.Decimal).SetMode(decimal.RoundingMode(vU64("z.mode", 0, 5))).SetPrec(uint(vCfgOr("zp", 7)))
	z.SetInt64(42)
	if vBool("z.neg") {
		z.Neg(z)
	}
	zs := snapZ(z)
	var r *decimal.Decimal
	k := vCatch(func() { r = doOp(c, op, z, x, y, u) })
	if pre == 1 {
		// latched: receiver returned untouched, error kept, no panic
		vAssert("C19.latched.nopanic", k == 0)
		vAssert("C19.latched.noop", vAnd(r == z, sameZ(z, zs)))
		vAssert("C19.latched.err", c.err == errOther)
		vReach("end")
		return
	}
	// what does the plain decimal operation do on a fresh receiver with the context's attributes?
	ref := new(decimal.Decimal).SetMode(c.mode).SetPrec(uint(c.prec))
	kr := vCatch(func() { refOp(op, ref, x, y, u) })
	switch kr {
	case 0:
		vAssert("C19.nopanic", k == 0)
		if k == 0 {
			vAssert("C19.returns", r == z)
			vAssert("C19.attrs", vAnd(z.Prec() == uint(c.prec), z.Mode() == c.mode))
			vAssert("C19.value", vAnd(z.Cmp(ref) == 0, vAnd(z.Acc() == ref.Acc(), z.Signbit() == ref.Signbit())))
			vAssert("C19.noerr", c.err == nil)
		}
	case 1:
		// NaN: no panic, error latched, receiver returned; Err() returns it once and re-arms
		vAssert("C19.nan.nopanic", k == 0)
		if k == 0 {
			vAssert("C19.nan.returns", r == z)
			var nan decimal.ErrNaN
			vAssert("C19.nan.latched", vAnd(c.err != nil, errors.As(c.err, &nan)))
			z2 := new(decimal.Decimal)
			one := decimal.NewDecimal(1, 0)
			z2s := snapZ(z2)
			r2 := c.Add(z2, one, one)
			vAssert("C19.nan.laternoop", vAnd(r2 == z2, sameZ(z2, z2s)))
			e1 := c.Err()
			vAssert("C19.err.once", vAnd(e1 != nil, c.Err() == nil))
			c.Add(z2, one, one)
			vAssert("C19.rearmed", vAnd(z2.Cmp(decimal.NewDecimal(2, 0)) == 0, c.Err() == nil))
		}
	default:
		// any other panic must not be swallowed and must not be latched
		vAssert("C19.other.propagates", k == 2)
		vAssert("C19.other.notlatched", c.err == nil)
	}
	vReach("end")
}

// H_C19_new: the constructors hand out Decimals carrying the context's
// precision and rounding mode, holding the argument rounded exactly as the
// plain setter on such a receiver does (the setters are C14's/C12's business).
func H_C19_new() {
	c := mkCtx()
	// the setters' arithmetic is C14's business: concrete magnitudes, symbolic sign and context mode
	x := int64(1234567)
	if vBool("x.neg") {
		x = -x
	}
	u := uint64(18446744073709551615)
	same := func(d, ref *decimal.Decimal) bool {
		return vAnd(d.Prec() == uint(c.prec), vAnd(d.Mode() == c.mode, vAnd(d.Cmp(ref) == 0, vAnd(d.Acc() == ref.Acc(), d.Signbit() == ref.Signbit()))))
	}
	fresh := func() *decimal.Decimal { return new(decimal.Decimal).SetMode(c.mode).SetPrec(uint(c.prec)) }
	var ok1, ok2, ok3, ok4, ok5 bool
	k := vCatch(func() {
		n := c.New()
		ok1 = vAnd(n.Prec() == uint(c.prec), vAnd(n.Mode() == c.mode, vAnd(n.IsZero(), !n.Signbit())))
		ok2 = same(c.NewInt64(x), fresh().SetInt64(x))
		ok3 = same(c.NewUint64(u), fresh().SetUint64(u))
		d, succ := c.NewString("-12.75")
		r, _ := fresh().SetString("-12.75")
		ok4 = vAnd(succ, same(d, r))
		d2, succ2 := c.NewString("1_")
		ok5 = vAnd(!succ2, d2 == nil)
	})
	vAssert("C19.nopanic", k == 0)
	vAssert("C19.new", ok1)
	vAssert("C19.newint64", ok2)
	vAssert("C19.newuint64", ok3)
	vAssert("C19.newstring", vAnd(ok4, ok5))
	vAssert("C19.noerr", c.err == nil)
	c0 := New(0, c.mode)
	c1 := New(uint(c.prec), c.mode)
	vAssert("C19.ctor", vAnd(c0.Prec() == decimal.DefaultDecimalPrec, vAnd(c0.Mode() == c.mode, vAnd(c1.Prec() == uint(c.prec), c1.Mode() == c.mode))))
	vReach("end")
}
