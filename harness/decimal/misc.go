//go:build verif

package decimal

import "math/big"

// H_C03_sep: the single rounding of FMA is observable (vacuity guard for C03):
// 1.1*1.1 - 1.2 at two digits is 0.01 fused but 0 when the product is rounded first.
func H_C03_sep() {
	x := NewDecimal(11, -1)
	y := NewDecimal(11, -1)
	u := NewDecimal(-12, -1)
	z1 := new(Decimal).SetPrec(2)
	z2 := new(Decimal).SetPrec(2)
	t := new(Decimal).SetPrec(2)
	z1.FMA(x, y, u)
	t.Mul(x, y)
	z2.Add(t, u)
	vWitness("C03.separation", z1.Cmp(z2) != 0)
	vAssert("C03.sep.fused", vAnd(z1.form == finite, z2.form == zero))
	vReach("end")
}

// H_C08_canon: two valid Decimals of equal value have the same exponent and
// the same significant digits, and compare equal.
func H_C08_canon() {
	w := vCfg("w")
	x := vDec("x", fFinite, w, 0, 0)
	y := vDec("y", fFinite, vCfgOr("wy", w), 0, 0)
	wy := len(y.mant)
	d := vI64("d", -3, 3) // exponent difference, concretised
	vAssume(int64(x.exp)-int64(y.exp) == d)
	dc := int(vConcI(d))
	// equal values: Mx * 10^(x.exp - 19 w) == My * 10^(y.exp - 19 wy)
	L := sMulPow10(specMant(x), _DW*wy+maxInt(dc, 0))
	R := sMulPow10(specMant(y), _DW*w+maxInt(-dc, 0))
	vAssume(vAnd(sEq(L, R), x.neg == y.neg))
	vAssert("C08.canon.exp", x.exp == y.exp)
	vAssert("C08.canon.cmp", x.Cmp(y) == 0)
	vAssert("C08.canon.minprec", x.MinPrec() == y.MinPrec())
	vReach("end")
}

// H_C14_toint: Int64 / Uint64 / Int / IsInt / MinPrec against the exact value.
func H_C14_toint() {
	fx := vCfgOr("fx", fFinite)
	w := vCfgOr("w", 1)
	x := vDec("x", fx, w, 0, 0)
	xs := snap(x)
	if fx == fFinite {
		vAssume(int(x.exp) == vCfg("e"))
	}
	var i64 int64
	var u64 uint64
	var a1, a2, a3 Accuracy
	var bi *big.Int
	var isint bool
	var mp uint
	k := vCatch(func() {
		i64, a1 = x.Int64()
		u64, a2 = x.Uint64()
		bi, a3 = x.Int(nil)
		isint = x.IsInt()
		mp = x.MinPrec()
	})
	vAssert("C04.nopanic", k == 0)
	vAssert("C09.operand", unchanged(x, xs))
	if k != 0 {
		return
	}
	switch fx {
	case fZero:
		vAssert("C14.int64", vAnd(i64 == 0, a1 == Exact))
		vAssert("C14.uint64", vAnd(u64 == 0, a2 == Exact))
		vAssert("C14.int", vAnd(bi.Sign() == 0, a3 == Exact))
		vAssert("C14.isint", isint)
		vAssert("C14.minprec", mp == 0)
	case fInf:
		vAssert("C14.int64", vAnd(i64 == int64(vIteI(x.neg, -1<<63, 1<<63-1)), a1 == makeAcc(x.neg)))
		vAssert("C14.uint64", vAnd(u64 == vIteU(x.neg, 0, ^uint64(0)), a2 == makeAcc(x.neg)))
		vAssert("C14.int", vAnd(bi == nil, a3 == makeAcc(x.neg)))
		vAssert("C14.isint", !isint)
		vAssert("C14.minprec", mp == 0)
	default:
		e := vCfg("e")
		M := specMant(x)
		var T sInt
		frac := false
		if e >= w*_DW {
			T = sMulPow10(M, e-w*_DW)
		} else if e > 0 {
			T = sDivPow10(M, w*_DW-e)
			frac = !sIsZero(sModPow10(M, w*_DW-e))
		} else {
			T = sU(0)
			frac = true
		}
		trunc := makeAcc(x.neg) // accuracy when something was discarded
		// Int64
		if x.neg {
			fits := sLe(T, sMulPow2(sU(1), 63))
			vAssert("C14.int64", vImp(fits, vAnd(sEq(sNeg(sI(i64)), T), a1 == Accuracy(vIteI(frac, int64(trunc), 0)))))
			vAssert("C14.int64.sat", vImp(!fits, vAnd(i64 == -1<<63, a1 == Above)))
		} else {
			fits := sLt(T, sMulPow2(sU(1), 63))
			vAssert("C14.int64", vImp(fits, vAnd(sEq(sI(i64), T), a1 == Accuracy(vIteI(frac, int64(trunc), 0)))))
			vAssert("C14.int64.sat", vImp(!fits, vAnd(i64 == 1<<63-1, a1 == Below)))
		}
		// Uint64
		if x.neg {
			vAssert("C14.uint64", vAnd(u64 == 0, a2 == Above))
		} else {
			fits := sLt(T, sMulPow2(sU(1), 64))
			vAssert("C14.uint64", vImp(fits, vAnd(sEq(sU(u64), T), a2 == Accuracy(vIteI(frac, int64(Below), 0)))))
			vAssert("C14.uint64.sat", vImp(!fits, vAnd(u64 == ^uint64(0), a2 == Below)))
		}
		// Int
		if bi == nil {
			vAssert("C14.int", false)
		} else {
			okv := sEq(sFromBinWords(bi.Bits()), T)
			oks := vOr(sIsZero(T), (bi.Sign() < 0) == x.neg)
			vAssert("C14.int", vAnd(okv, vAnd(oks, a3 == Accuracy(vIteI(frac, int64(trunc), 0)))))
		}
		vAssert("C14.isint", isint == !frac)
		mpc := int(vConcU(uint64(mp)))
		ok := vAnd(mpc >= 1, mpc <= w*_DW)
		if mpc >= 1 && mpc <= w*_DW {
			ok = vAnd(ok, sIsZero(sModPow10(M, w*_DW-mpc)))
			ok = vAnd(ok, !sIsZero(sModPow10(M, w*_DW-mpc+1)))
		}
		vAssert("C14.minprec", ok)
	}
	vReach("end")
}

// H_C20_setmantexp_any: SetMantExp on an arbitrary finite mant and any int exponent.
func H_C20_setmantexp_any() {
	w := vCfgOr("w", 1)
	m := vDec("m", fFinite, w, 0, 0)
	ms := snap(m)
	ex := int(vI64("extra", -1<<63, 1<<63-1))
	z := m
	if vCfgOr("alias", 0) == 0 {
		z = vDec("z", vCfgOr("zf", fZero), 1, 0, 0)
	}
	k := vCatch(func() { z.SetMantExp(m, ex) })
	vAssert("C04.nopanic", k == 0)
	// mathematical sum of the exponents (no wrap-around)
	sum := sAdd(sI(int64(ms.exp)), sI(int64(ex)))
	over := sLt(sI(MaxExp), sum)
	under := sLt(sum, sI(MinExp))
	if over {
		vAssert("C20.setmantexp", vAnd(z.form == inf, z.neg == ms.neg))
		vAssert("C02.acc", z.acc == makeAcc(!ms.neg))
	} else if under {
		vAssert("C20.setmantexp", vAnd(z.form == zero, z.neg == ms.neg))
		vAssert("C02.acc", z.acc == makeAcc(ms.neg))
	} else {
		ok := vAnd(z.form == finite, vAnd(z.neg == ms.neg, sEq(sI(int64(z.exp)), sum)))
		ok = vAnd(ok, sEq(sFromWords(z.mant), specMantSnap(ms)))
		vAssert("C20.setmantexp", ok)
		vAssert("C02.acc", z.acc == Exact)
	}
	vAssert("C09.attr", vAnd(z.prec == ms.prec, z.mode == ms.mode))
	vAssert("C08.inv", invOK(z))
	vReach("end")
}
