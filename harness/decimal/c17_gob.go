//go:build verif

package decimal

// C17: Gob round trip and safe decoding of arbitrary bytes.

func H_C17_roundtrip() {
	fx, w, px := vCfg("fx"), vCfgOr("w", 1), vCfgOr("px", 0)
	x := vDec("x", fx, w, 0, px)
	xs := snap(x)
	var buf []byte
	var err error
	k := vCatch(func() { buf, err = x.GobEncode() })
	vAssert("C04.nopanic", k == 0)
	vAssert("C17.encode.noerr", err == nil)
	vAssert("C09.operand", unchanged(x, xs))
	pz := vCfgOr("pz", 0)
	z := vDec("z", vCfgOr("zf", fZero), 1, vCfgOr("capx", 0), pz)
	if pz == 0 {
		z.prec = 0
	}
	zmode := z.mode
	var derr error
	k2 := vCatch(func() { derr = z.GobDecode(buf) })
	vAssert("C04.nopanic", k2 == 0)
	vAssert("C17.decode.noerr", derr == nil)
	if k2 != 0 {
		return
	}
	if pz == 0 {
		// every attribute is reproduced
		ok := vAnd(z.form == x.form, vAnd(z.neg == x.neg, vAnd(z.prec == x.prec, vAnd(z.mode == x.mode, z.acc == x.acc))))
		if fx == fFinite {
			n := len(z.mant)
			ok = vAnd(ok, z.exp == x.exp)
			if n == 0 {
				ok = false
			} else {
				ok = vAnd(ok, sEq(sMulPow10(sFromWords(z.mant), _DW*len(x.mant)), sMulPow10(specMant(x), _DW*n)))
			}
		}
		vAssert("C17.roundtrip", ok)
	} else {
		vAssert("C09.prec", z.prec == uint32(pz))
		vAssert("C09.mode", z.mode == zmode)
		if fx == fFinite {
			r := roundRef(specMant(x), false, int64(x.exp)-int64(w*_DW), pz, zmode, x.neg, w*_DW, w*_DW)
			if px > 0 && px <= pz {
				// nothing to round: value unchanged, accuracy Exact by SetPrec
			}
			refMatch("C17.value", "C17.acc", z, r, x.neg)
		} else {
			vAssert("C17.value", vAnd(z.form == x.form, z.neg == x.neg))
		}
	}
	vAssert("C08.inv", invOK(z))
	vReach("end")
}

// H_C17_bytes: arbitrary byte strings of length L.
func H_C17_bytes() {
	L := vCfg("L")
	buf := make([]byte, L)
	for i := range buf {
		buf[i] = byte(vU64(vN("b", i), 0, 255))
	}
	pz := vCfgOr("pz", 0)
	z := vDec("z", vCfgOr("zf", fZero), 1, vCfgOr("capx", 0), pz)
	if pz == 0 {
		z.prec = 0
	}
	var err error
	k := vCatch(func() { err = z.GobDecode(buf) })
	vAssert("C17.nopanic", k == 0)
	if k == 0 && err == nil {
		vAssert("C17.inv", invOK(z))
	}
	vReach("end")
}
