//go:build verif

package decimal

// Shared harness helpers: construction of arbitrary valid Decimals with a
// concrete shape (DESIGN 4.1) and the representation invariant Inv (A.1).

const (
	fZero   = 0
	fFinite = 1
	fInf    = 2
)

// vDec returns an arbitrary Decimal satisfying Inv.
//
//	frm      form class (fZero, fFinite, fInf)                     -- concrete
//	w        len(mant) for finite values                           -- concrete
//	capx     extra capacity of the mantissa buffer                 -- concrete
//	prec     > 0: exactly this precision (digits beyond it are zero by construction)
//	         0 : any precision >= 19*w (symbolic), no trailing-zero constraint needed
//
// Everything else (words, sign, exponent, mode, accuracy) is symbolic.
func vDec(name string, frm, w, capx, prec int) *Decimal {
	if vShareOn {
		return vSharedDec(name, frm, w, capx, prec)
	}
	return vDec0(name, frm, w, capx, prec)
}

func vDec0(name string, frm, w, capx, prec int) *Decimal {
	x := new(Decimal)
	x.neg = vBool(name + ".neg")
	x.mode = RoundingMode(vU64(name+".mode", 0, 5))
	x.acc = Accuracy(vI64(name+".acc", -1, 1))
	x.form = form(frm)
	if frm != fFinite {
		// zeros and infinities carry only a sign; precision may be 0
		if prec > 0 {
			x.prec = uint32(prec)
		} else {
			x.prec = uint32(vU64(name+".prec", 0, MaxPrec))
		}
		x.exp = int32(vI64(name+".exp", MinExp, MaxExp))
		if capx > 0 {
			// stale buffer with arbitrary contents
			x.mant = make(dec, capx)
			for i := range x.mant {
				x.mant[i] = Word(vU64(vN(name+".stale", i), 0, ^uint64(0)))
			}
			x.mant = x.mant[:0]
		}
		return x
	}
	x.mant = make(dec, w, w+capx)
	for i := w; i < w+capx; i++ {
		x.mant[:w+capx][i] = Word(vU64(vN(name+".stale", i), 0, ^uint64(0)))
	}
	x.exp = int32(vI64(name+".exp", MinExp, MaxExp))
	if prec <= 0 || prec >= w*_DW {
		if prec > 0 {
			x.prec = uint32(prec)
		} else {
			x.prec = uint32(vU64(name+".prec", uint64(w*_DW), MaxPrec))
		}
		for i := 0; i < w-1; i++ {
			x.mant[i] = Word(vU64(vN(name+".m", i), 0, _DMax))
		}
		x.mant[w-1] = Word(vU64(vN(name+".m", w-1), _DB/10, _DMax))
		return x
	}
	// 0 < prec < 19*w: the low t = 19*w - prec digits are zero
	x.prec = uint32(prec)
	t := w*_DW - prec
	zw, zd := t/_DW, t%_DW
	for i := 0; i < w; i++ {
		lo, hi := uint64(0), uint64(_DMax)
		if i == w-1 {
			lo = _DB / 10
		}
		switch {
		case i < zw:
			x.mant[i] = 0
		case i == zw && zd > 0:
			s := pow10tab[zd]
			x.mant[i] = Word(s * vU64(vN(name+".m", i), (lo+s-1)/s, hi/s))
		default:
			x.mant[i] = Word(vU64(vN(name+".m", i), lo, hi))
		}
	}
	return x
}

// specMant is the integer value of x's mantissa words.
func specMant(x *Decimal) sInt { return sFromWords(x.mant) }

// invOK reports whether x satisfies the representation invariant Inv (A.1).
// It is written without short-circuit operators so that it does not fork.
func invOK(x *Decimal) bool {
	ok := vAnd(x.form <= inf, vAnd(x.mode <= ToPositiveInf, vAnd(x.acc >= -1, x.acc <= 1)))
	if x.form != finite {
		return ok
	}
	n := len(x.mant)
	if n == 0 {
		return false
	}
	for i := 0; i < n; i++ {
		ok = vAnd(ok, x.mant[i] < _DB)
	}
	ok = vAnd(ok, x.mant[n-1] >= _DB/10)
	ok = vAnd(ok, x.prec >= 1)
	// no non-zero digit beyond the precision (decidable when the precision is concrete)
	if vIsConc(int64(x.prec)) {
		if p := int(x.prec); n*_DW > p && p >= 1 {
			ok = vAnd(ok, sIsZero(sModPow10(sFromWords(x.mant), n*_DW-p)))
		}
	}
	return ok
}
