//go:build verif

package decimal

// C01/C02/C04/C08/C09/C10: Add and Sub of finite operands.

type decSnap struct {
	form form
	neg  bool
	exp  int32
	prec uint32
	mode RoundingMode
	acc  Accuracy
	n    int
	w    []Word // all words up to capacity
}

func snap(x *Decimal) decSnap {
	s := decSnap{form: x.form, neg: x.neg, exp: x.exp, prec: x.prec, mode: x.mode, acc: x.acc, n: len(x.mant)}
	full := x.mant[:cap(x.mant)]
	s.w = make([]Word, len(full))
	copy(s.w, full)
	return s
}

// unchanged reports whether x still equals its snapshot (fields and every word
// of the backing array up to its capacity).
func unchanged(x *Decimal, s decSnap) bool {
	ok := vAnd(x.form == s.form, vAnd(x.neg == s.neg, vAnd(x.exp == s.exp, vAnd(x.prec == s.prec, vAnd(x.mode == s.mode, x.acc == s.acc)))))
	if len(x.mant) != s.n || cap(x.mant) != len(s.w) {
		return false
	}
	full := x.mant[:cap(x.mant)]
	for i := range full {
		ok = vAnd(ok, full[i] == s.w[i])
	}
	return ok
}

// receiver selects the receiver according to the aliasing class:
//
//	0 fresh zero value with precision p and a symbolic mode
//	1 z is x          2 z is y
//	5 dirty receiver: arbitrary valid old value (form zf, wz words, capx spare words)
func receiver(alias int, x, y *Decimal, p int) *Decimal {
	switch alias {
	case 1:
		return x
	case 2:
		return y
	case 5:
		return vDec("z", vCfgOr("zf", fFinite), vCfgOr("wz", 1), vCfgOr("capx", 0), p)
	}
	z := new(Decimal)
	z.prec = uint32(p)
	z.mode = RoundingMode(vU64("z.mode", 0, 5))
	return z
}

func maxInt(a, b int) int {
	if a > b {
		return a
	}
	return b
}

func H_C01_addsub() {
	op := vCfg("op") // 0 Add, 1 Sub
	wx, wy, d, p := vCfg("wx"), vCfg("wy"), vCfg("d"), vCfg("p")
	alias := vCfgOr("alias", 0)
	px, py := vCfgOr("px", 0), vCfgOr("py", 0)
	if alias == 1 {
		px = p
	}
	if alias == 2 {
		py = p
	}
	x := vDec("x", fFinite, wx, vCfgOr("capx", 0), px)
	y := x
	if vCfgOr("same", 0) == 0 {
		y = vDec("y", fFinite, wy, vCfgOr("capx", 0), py)
	}
	// alignment: (x.exp - 19*wx) - (y.exp - 19*wy) == d
	ex := int64(x.exp) - int64(wx*_DW)
	ey := ex - int64(d)
	if y != x {
		// y's exponent is derived (not assumed) so that inputs can be sampled
		ye := ey + int64(wy*_DW)
		vAssume(vAnd(ye >= MinExp, ye <= MaxExp))
		y.exp = int32(ye)
	}
	z := receiver(alias, x, y, p)
	if vCfgOr("p0", 0) == 1 {
		// zero-precision receiver: takes the larger operand precision (px, py concrete)
		z.prec = 0
		p = maxInt(px, py)
	}
	mode := z.mode
	// exact result from the pre-state
	A := sMulPow10(specMant(x), maxInt(d, 0))
	B := sMulPow10(specMant(y), maxInt(-d, 0))
	e0 := ey
	if d < 0 {
		e0 = ex
	}
	xneg := x.neg
	yneg := y.neg != (op == 1)
	xs, ys := snap(x), snap(y)
	k := vCatch(func() {
		if op == 0 {
			z.Add(x, y)
		} else {
			z.Sub(x, y)
		}
	})
	vAssert("C04.nopanic", k == 0)
	kmax := maxInt(wx*_DW+maxInt(d, 0), wy*_DW+maxInt(-d, 0)) + 1
	if xneg == yneg {
		r := roundRef(sAdd(A, B), false, e0, p, mode, xneg, kmax-1-0*kmax, kmax)
		_ = r
		refMatch("C01.value", "C02.acc", z, r, xneg)
	} else if sLt(B, A) {
		r := roundRef(sSub(A, B), false, e0, p, mode, xneg, 1, kmax)
		refMatch("C01.value", "C02.acc", z, r, xneg)
	} else if sLt(A, B) {
		r := roundRef(sSub(B, A), false, e0, p, mode, yneg, 1, kmax)
		refMatch("C01.value", "C02.acc", z, r, yneg)
	} else {
		// exact zero: +0, or -0 under ToNegativeInf
		vAssert("C01.value", vAnd(z.form == zero, z.neg == (mode == ToNegativeInf)))
		vAssert("C02.acc", z.acc == Exact)
	}
	vAssert("C08.inv", invOK(z))
	vAssert("C09.prec", z.prec == uint32(p))
	vAssert("C09.mode", z.mode == mode)
	if alias != 1 {
		vAssert("C09.operand", unchanged(x, xs))
	}
	if alias != 2 && y != z {
		vAssert("C09.operand", unchanged(y, ys))
	}
	vReach("end")
}
