//go:build verif

package decimal

// C06: natural-number kernels (dec.mul, dec.sqr, dec.div) are exact for every
// word value, at every path selected by the tuning thresholds.

// vNat returns an arbitrary dec of n words (all < D). norm: top word non-zero.
func vNat(name string, n int, norm bool) dec {
	x := make(dec, n)
	for i := 0; i < n; i++ {
		lo := uint64(0)
		if norm && i == n-1 {
			lo = 1
		}
		x[i] = Word(vU64(vN(name, i), lo, _DMax))
	}
	return x
}

func wordsOK(z dec) bool {
	ok := true
	for i := range z {
		ok = vAnd(ok, z[i] < _DB)
	}
	if len(z) > 0 {
		ok = vAnd(ok, z[len(z)-1] != 0)
	}
	return ok
}

func setThresholds() {
	// conditional stores: concurrent harness runs (race-mode replay) must not write shared variables
	if v := vCfgOr("kt", 30); decKaratsubaThreshold != v {
		decKaratsubaThreshold = v
	}
	if v := vCfgOr("bst", 10); decBasicSqrThreshold != v {
		decBasicSqrThreshold = v
	}
	if v := vCfgOr("kst", 50); decKaratsubaSqrThreshold != v {
		decKaratsubaSqrThreshold = v
	}
}

func H_C06_mul() {
	setThresholds()
	x := vNat("x", vCfg("m"), true)
	y := vNat("y", vCfg("n"), true)
	X, Y := sFromWords(x), sFromWords(y)
	var z dec
	k := vCatch(func() { z = z.mul(x, y) })
	vAssert("C04.nopanic", k == 0)
	vAssert("C06.mul.value", sEq(sFromWords(z), sMul(X, Y)))
	vAssert("C06.mul.words", wordsOK(z))
	vReach("end")
}

func H_C06_sqr() {
	setThresholds()
	x := vNat("x", vCfg("m"), true)
	X := sFromWords(x)
	var z dec
	k := vCatch(func() { z = z.sqr(x) })
	vAssert("C04.nopanic", k == 0)
	vAssert("C06.sqr.value", sEq(sFromWords(z), sMul(X, X)))
	vAssert("C06.sqr.words", wordsOK(z))
	vReach("end")
}

func H_C06_div() {
	u := vNat("u", vCfg("m"), true)
	v := vNat("v", vCfg("n"), true)
	U, V := sFromWords(u), sFromWords(v)
	var q, r dec
	k := vCatch(func() { q, r = q.div(nil, u, v) })
	vAssert("C04.nopanic", k == 0)
	Q, R := sFromWords(q), sFromWords(r)
	vAssert("C06.div.identity", sEq(U, sAdd(sMul(Q, V), R)))
	vAssert("C06.div.remainder", sLt(R, V))
	vAssert("C06.div.words", vAnd(wordsOK(q), wordsOK(r)))
	vReach("end")
}

// H_C06_thresh: the product does not depend on the Karatsuba threshold.
func H_C06_thresh() {
	x := vNat("x", vCfg("m"), true)
	y := vNat("y", vCfg("n"), true)
	decKaratsubaThreshold = 30
	var z1, z2 dec
	z1 = z1.mul(x, y)
	decKaratsubaThreshold = 2
	z2 = z2.mul(x, y)
	vAssert("C06.threshold", sEq(sFromWords(z1), sFromWords(z2)))
	vAssert("C06.threshold.len", len(z1) == len(z2))
	vReach("end")
}

// H_C06_divbasic: Knuth's algorithm D on a normalised divisor (top word >= D/2),
// dividend of n+k words whose top word is below the divisor's top word.
func H_C06_divbasic() {
	n, k := vCfg("n"), vCfgOr("k", 1)
	v := vNat("v", n, false)
	vAssume(v[n-1] >= _DB/2)
	u := vNat("u", n+k, false)
	vAssume(u[n+k-1] < v[n-1])
	U, V := sFromWords(u), sFromWords(v)
	q := make(dec, k)
	kk := vCatch(func() { q.divBasic(u, v) })
	vAssert("C04.nopanic", kk == 0)
	ok := true
	for i := range u {
		ok = vAnd(ok, u[i] < _DB)
	}
	for i := range q {
		ok = vAnd(ok, q[i] < _DB)
	}
	vAssert("C06.divbasic.words", ok)
	R := sFromWords(u)
	vAssert("C06.divbasic.identity", sEq(U, sAdd(sMul(sFromWords(q), V), R)))
	vAssert("C06.divbasic.remainder", sLt(R, V))
	vReach("end")
}

// extremal divisor words for Knuth's algorithm D: the quotient-digit estimate is
// worst when the top word is as small as normalisation allows and the next is large
func patWord(code int) Word {
	switch code {
	case 0:
		return 0
	case 1:
		return 1
	case 2:
		return _DB / 2
	case 3:
		return _DB/2 + 1
	case 4:
		return _DMax
	case 5:
		return _DMax - 1
	case 6:
		return _DB / 10 * 7
	case 7:
		return _DB/10 + 1
	case 8:
		return 1234567890123456789
	}
	return 12345678901234567
}

// H_C06_divpat: dec.div (divLarge/divBasic with normalisation) for a CONCRETE
// divisor from the extremal pattern list and an arbitrary dividend: with the
// divisor fixed every product is linear and the solver decides all dividends.
func H_C06_divpat() {
	n, m := vCfg("n"), vCfg("m")
	v := make(dec, n)
	for i := 0; i < n; i++ {
		v[i] = patWord(vCfg(vN("v", i)))
	}
	u := vNat("u", m, true)
	U, V := sFromWords(u), sFromWords(v)
	// receiver classes: 0 fresh; 1 quotient receiver == divisor, 2 == dividend, 3 remainder receiver ==
	// divisor, 4 == dividend (each with spare capacity, so that make() reuses the operand's array)
	var z, z2 dec
	if a := vCfgOr("alias", 0); a != 0 {
		bu, bv := make(dec, m, m+n+3), make(dec, n, m+n+3)
		copy(bu, u)
		copy(bv, v)
		u, v = bu, bv
		switch a {
		case 1:
			z = v
		case 2:
			z = u
		case 3:
			z2 = v
		case 4:
			z2 = u
		}
	}
	var q, r dec
	k := vCatch(func() { q, r = z.div(z2, u, v) })
	vAssert("C04.nopanic", k == 0)
	if k != 0 {
		return
	}
	Q, R := sFromWords(q), sFromWords(r)
	vAssert("C06.div.identity", sEq(U, sAdd(sMul(Q, V), R)))
	vAssert("C06.div.remainder", sLt(R, V))
	vAssert("C06.div.words", vAnd(wordsOK(q), wordsOK(r)))
	vReach("end")
}

// H_C06_units: the small natural-number helpers that the long algorithms and the
// rounding code are built from, each against its arithmetic definition for all
// word values: decAddAt (carry propagation into the upper words), digit, sticky,
// digits, trailingZeroDigits, shl, shr (fresh, same and longer receivers).
func H_C06_units() {
	switch vCfg("unit") {
	case 1: // decAddAt(z, x, i): z += x * D^i, given that the sum fits
		lz, n, i := vCfg("lz"), vCfg("n"), vCfg("i")
		z := vNat("z", lz, false)
		x := vNat("x", n, false)
		Z, X := sFromWords(z), sFromWords(x)
		sum := sAdd(Z, sMul(X, sPow10(_DW*i)))
		vAssume(sLt(sum, sPow10(_DW*lz)))
		low := make(dec, i)
		copy(low, z[:i])
		k := vCatch(func() { decAddAt(z, x, i) })
		vAssert("C04.nopanic", k == 0)
		vAssert("C06.addat.value", sEq(sFromWords(z), sum))
		below := true
		for j := range z {
			below = vAnd(below, z[j] < _DB)
		}
		vAssert("C06.addat.words", below)
		ok := true
		for j := range low {
			ok = vAnd(ok, low[j] == z[j])
		}
		vAssert("C06.addat.frame", ok)
	case 2: // digit, sticky at position i
		w, i := vCfg("w"), vCfg("i")
		x := vNat("x", w, true)
		X := sFromWords(x)
		vAssert("C06.unit.digit", sEq(sU(uint64(x.digit(uint(i)))), sModPow10(sDivPow10(X, i), 1)))
		st := x.sticky(uint(i))
		vAssert("C06.unit.sticky", (st == 1) == !sIsZero(sModPow10(X, i)))
		vAssert("C06.unit.sticky01", st <= 1)
	case 4: // digits, trailingZeroDigits
		w := vCfg("w")
		x := vNat("x", w, true)
		X := sFromWords(x)
		d := int(vConcI(int64(x.digits())))
		vAssert("C06.unit.digits", vAnd(sLe(sPow10(d-1), X), sLt(X, sPow10(d))))
		tz := int(vConcI(int64(x.trailingZeroDigits())))
		vAssert("C06.unit.tz", vAnd(sIsZero(sModPow10(X, tz)), !sIsZero(sModPow10(X, tz+1))))
	case 3: // shl / shr
		w, s := vCfg("w"), vCfg("s")
		x := vNat("x", w, true)
		X := sFromWords(x)
		var z dec
		switch vCfgOr("alias", 0) {
		case 1:
			z = x
		case 2:
			z = make(dec, w+3, w+4)
			for j := range z {
				z[j] = Word(vU64(vN("stale", j), 0, _DMax))
			}
		}
		var l, r dec
		if vCfgOr("right", 0) == 1 {
			k := vCatch(func() { r = z.shr(x, uint(s)) })
			vAssert("C04.nopanic", k == 0)
			vAssert("C06.unit.shr", vAnd(sEq(sFromWords(r), sDivPow10(X, s)), wordsOK(r)))
			if len(r) > 0 {
				vAssert("C06.unit.norm", r[len(r)-1] != 0)
			}
		} else {
			k := vCatch(func() { l = z.shl(x, uint(s)) })
			vAssert("C04.nopanic", k == 0)
			vAssert("C06.unit.shl", vAnd(sEq(sFromWords(l), sMulPow10(X, s)), wordsOK(l)))
			if len(l) > 0 {
				vAssert("C06.unit.norm", l[len(l)-1] != 0)
			}
		}
	}
	vReach("end")
}
