//go:build verif

package decimal

// C03: FMA = x*y + u with a single rounding; IEEE sign of an exact zero sum;
// same result when the receiver is also an operand.

func H_C03_fma() {
	fx, fy, fu := vCfgOr("fx", fFinite), vCfgOr("fy", fFinite), vCfgOr("fu", fFinite)
	wx, wy, wu := vCfgOr("wx", 1), vCfgOr("wy", 1), vCfgOr("wu", 1)
	d, p := vCfgOr("d", 0), vCfg("p")
	alias := vCfgOr("alias", 0) // 0 fresh, 1 z=x, 2 z=y, 3 z=u, 5 dirty
	pa := [4]int{0, 0, 0, 0}
	if alias >= 1 && alias <= 3 {
		pa[alias] = p
	}
	x := vDec("x", fx, wx, vCfgOr("capx", 0), pa[1])
	y := vDec("y", fy, wy, vCfgOr("capx", 0), pa[2])
	u := vDec("u", fu, wu, vCfgOr("capx", 0), pa[3])
	if fy == fFinite && vCfgOr("ypat0", -1) >= 0 {
		// concrete multiplier mantissa (see H_C01_mul)
		for i := 0; i < wy; i++ {
			y.mant[i] = patWord(vCfg(vN("ypat", i)))
		}
	}
	var z *Decimal
	switch alias {
	case 1:
		z = x
	case 2:
		z = y
	case 3:
		z = u
	default:
		z = receiver(alias, x, y, p)
	}
	mode := z.mode
	pneg := x.neg != y.neg
	uneg := u.neg
	allFinite := fx == fFinite && fy == fFinite && fu == fFinite
	var P, U sInt
	var e0 int64
	if allFinite {
		// product exponent (low end) minus u's low-end exponent == d
		ep := int64(x.exp) - int64(wx*_DW) + int64(y.exp) - int64(wy*_DW)
		// u's exponent is derived (not assumed) so that inputs can be sampled
		eu := ep - int64(d)
		ue := eu + int64(wu*_DW)
		vAssume(vAnd(ue >= MinExp, ue <= MaxExp))
		u.exp = int32(ue)
		P = sMulPow10(sMul(specMant(x), specMant(y)), maxInt(d, 0))
		U = sMulPow10(specMant(u), maxInt(-d, 0))
		e0 = eu
		if d < 0 {
			e0 = ep
		}
	}
	if er := vCfgOr("erange", 0); er > 0 && allFinite {
		// exponents in a window far from the limits: the known finding's region is excluded by
		// construction, every violation found here is a different one
		vAssume(vAnd(vAnd(int(x.exp) >= -er, int(x.exp) <= er), vAnd(int(y.exp) >= -er, int(y.exp) <= er)))
	}
	xs, ys, us := snap(x), snap(y), snap(u)
	if fx == fFinite && fy == fFinite {
		// known finding: the intermediate product is formed with an int32 exponent, so it
		// overflows/underflows on its own although x*y+u is evaluated "exactly"
		esum := int64(x.exp) + int64(y.exp)
		vKnown("KF-fma-product-range", vOr(esum > MaxExp, esum-1 < MinExp))
	}
	k := vCatch(func() { z.FMA(x, y, u) })
	// product class
	pclass := oFinite
	switch {
	case (fx == fZero && fy == fInf) || (fx == fInf && fy == fZero):
		pclass = oPanic
	case fx == fInf || fy == fInf:
		pclass = oInf
	case fx == fZero || fy == fZero:
		pclass = oZero
	}
	switch {
	case pclass == oPanic:
		vAssert("C04.errnan", k == 1)
	case pclass == oInf && fu == fInf:
		if k == 1 {
			vAssert("C04.errnan", pneg != uneg)
		} else {
			vAssert("C04.nopanic", k == 0)
			vAssert("C04.errnan", pneg == uneg)
			vAssert("C04.form", vAnd(z.form == inf, z.neg == pneg))
		}
	case pclass == oInf:
		vAssert("C04.nopanic", k == 0)
		vAssert("C04.form", vAnd(z.form == inf, z.neg == pneg))
	case fu == fInf:
		vAssert("C04.nopanic", k == 0)
		vAssert("C04.form", vAnd(z.form == inf, z.neg == uneg))
	case pclass == oZero && fu == fZero:
		// (+-0) + (+-0): sign is the AND of the signs
		vAssert("C04.nopanic", k == 0)
		vAssert("C04.form", vAnd(z.form == zero, z.neg == vAnd(pneg, uneg)))
	case pclass == oZero:
		// 0 + u = u rounded
		vAssert("C04.nopanic", k == 0)
		r := roundRef(specMantSnap(us), false, int64(us.exp)-int64(us.n*_DW), p, mode, uneg, us.n*_DW, us.n*_DW)
		refMatch("C03.value", "C03.acc", z, r, uneg)
	case fu == fZero:
		// x*y + 0 = x*y rounded
		vAssert("C04.nopanic", k == 0)
		n := (wx + wy) * _DW
		ep := int64(xs.exp) - int64(wx*_DW) + int64(ys.exp) - int64(wy*_DW)
		r := roundRef(sMul(specMantSnap(xs), specMantSnap(ys)), false, ep, p, mode, pneg, n-1, n)
		refMatch("C03.value", "C03.acc", z, r, pneg)
	default:
		vAssert("C04.nopanic", k == 0)
		kmax := maxInt((wx+wy)*_DW+maxInt(d, 0), wu*_DW+maxInt(-d, 0)) + 1
		if pneg == uneg {
			r := roundRef(sAdd(P, U), false, e0, p, mode, pneg, 1, kmax)
			refMatch("C03.value", "C03.acc", z, r, pneg)
		} else if sLt(U, P) {
			r := roundRef(sSub(P, U), false, e0, p, mode, pneg, 1, kmax)
			refMatch("C03.value", "C03.acc", z, r, pneg)
		} else if sLt(P, U) {
			r := roundRef(sSub(U, P), false, e0, p, mode, uneg, 1, kmax)
			refMatch("C03.value", "C03.acc", z, r, uneg)
		} else {
			vAssert("C03.value", vAnd(z.form == zero, z.neg == (mode == ToNegativeInf)))
			vAssert("C03.acc", z.acc == Exact)
		}
	}
	vAssert("C08.inv", invOK(z))
	if k == 0 {
		vAssert("C09.prec", z.prec == uint32(p))
		vAssert("C09.mode", z.mode == mode)
	}
	if alias != 1 {
		vAssert("C09.operand", unchanged(x, xs))
	}
	if alias != 2 {
		vAssert("C09.operand", unchanged(y, ys))
	}
	if alias != 3 {
		vAssert("C09.operand", unchanged(u, us))
	}
	vReach("end")
}

// specMantSnap is the integer value of the snapshotted mantissa.
func specMantSnap(s decSnap) sInt { return sFromWords(s.w[:s.n]) }
