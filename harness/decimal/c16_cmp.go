//go:build verif

package decimal

// C16: Cmp is the order of the exact values.

func specOrd(x *Decimal) int {
	m := 0
	switch x.form {
	case finite:
		m = 1
	case inf:
		m = 2
	}
	if x.neg {
		m = -m
	}
	return m
}

// specUcmp compares |x| and |y| for finite x, y (exact values).
func specUcmp(x, y *Decimal) int {
	if x.exp != y.exp {
		// normalised mantissas lie in [0.1, 1): the exponent decides
		if x.exp < y.exp {
			return -1
		}
		return 1
	}
	wx, wy := len(x.mant), len(y.mant)
	w := wx
	if wy > w {
		w = wy
	}
	X := sMulPow10(specMant(x), _DW*(w-wx))
	Y := sMulPow10(specMant(y), _DW*(w-wy))
	if sLt(X, Y) {
		return -1
	}
	if sLt(Y, X) {
		return 1
	}
	return 0
}

func specCmp(x, y *Decimal) int {
	ox, oy := specOrd(x), specOrd(y)
	if ox < oy {
		return -1
	}
	if ox > oy {
		return 1
	}
	if ox == 1 {
		return specUcmp(x, y)
	}
	if ox == -1 {
		return -specUcmp(x, y)
	}
	return 0
}

func H_C16_cmp() {
	x := vDec("x", vCfg("fx"), vCfg("wx"), 0, 0)
	y := vDec("y", vCfg("fy"), vCfg("wy"), 0, 0)
	got := x.Cmp(y)
	want := specCmp(x, y)
	vAssert("C16.cmp", got == want)
	vAssert("C16.antisym", y.Cmp(x) == -got)
	// Sign / Signbit / IsZero / IsInf are consistent with the order
	zero := new(Decimal)
	vAssert("C16.sign", x.Sign() == x.Cmp(zero))
	vAssert("C16.iszero", x.IsZero() == (x.Cmp(zero) == 0))
	vAssert("C16.isinf", x.IsInf() == (vCfg("fx") == fInf))
	vAssert("C16.signbit", vImp(x.Cmp(zero) < 0, x.Signbit()))
	vReach("C16.cmp.end")
}

// transitivity and totality on arbitrary finite triples (mixed signs)
func H_C16_trans() {
	x := vDec("x", fFinite, vCfg("wx"), 0, 0)
	y := vDec("y", fFinite, vCfg("wy"), 0, 0)
	z := vDec("z", fFinite, vCfg("wz"), 0, 0)
	xy, yz, xz := x.Cmp(y), y.Cmp(z), x.Cmp(z)
	vAssert("C16.trans.le", vImp(vAnd(xy <= 0, yz <= 0), xz <= 0))
	vAssert("C16.trans.lt", vImp(vAnd(xy < 0, yz <= 0), xz < 0))
	vAssert("C16.trans.eq", vImp(vAnd(xy == 0, yz == 0), xz == 0))
	vAssert("C16.range", vAnd(xy >= -1, xy <= 1))
	vReach("C16.trans.end")
}
