//go:build verif

package decimal

func H_dev_addmul() {
	x := vNat("x", 2, true)
	z := vNat("z", 2, false)
	y := Word(vU64("y", 1, _DMax))
	c := addMul10VVW_g(z, x, y)
	vDump("z0", uint64(z[0]))
	vDump("z1", uint64(z[1]))
	vDump("c", uint64(c))
}
