//go:build verif

package decimal

// C11: text output parses back to exactly the same Decimal.

func isDigit(c byte) bool { return '0' <= c && c <= '9' }

// H_C11_rt: Parse(Append(x, fmt, -1)) == x for fmt in e E f g G p b and MarshalText ('m').
func H_C11_rt() {
	fx, w := vCfgOr("fx", fFinite), vCfgOr("w", 1)
	f := byte(vCfg("fmt"))
	px := 0
	if f == 'b' {
		px = vCfgOr("px", w*_DW)
	}
	x := vDec("x", fx, w, 0, px)
	if fx == fFinite && vCfgOr("elo", -1<<40) != -1<<40 {
		vAssume(vAnd(int(x.exp) >= vCfg("elo"), int(x.exp) <= vCfg("ehi")))
	}
	xs := snap(x)
	var out []byte
	var merr error
	k := vCatch(func() {
		if f == 'm' {
			out, merr = x.MarshalText()
		} else {
			out = x.Append(make([]byte, 0, 128), f, -1)
		}
	})
	vAssert("C11.nopanic", vAnd(k == 0, merr == nil))
	if k != 0 {
		return
	}
	vAssert("C09.operand", unchanged(x, xs))
	// with precision -1 exactly MinPrec significant digits are printed (no digit dropped, none invented)
	if fx == fFinite && f != 'b' && f != 'f' {
		nd := 0
		for i := 0; i < len(out); i++ {
			c := out[i]
			if c == 'e' || c == 'E' {
				break
			}
			if isDigit(c) {
				nd++
			}
		}
		if f == 'p' {
			nd-- // the leading "0."
		}
		vAssert("C11.digits", uint(nd) == x.MinPrec() || (f == 'g' || f == 'G' || f == 'm'))
	}
	// parse it back into a receiver whose precision is at least MinPrec
	z := new(Decimal).SetPrec(uint(vCfgOr("pz", w*_DW)))
	var d *Decimal
	var err error
	k2 := vCatch(func() {
		if f == 'm' {
			err = z.UnmarshalText(out)
			d = z
		} else {
			d, _, err = z.Parse(string(out), 10)
		}
	})
	vAssert("C11.nopanic", k2 == 0)
	vAssert("C11.parses", vAnd(err == nil, d == z))
	if k2 != 0 || err != nil {
		return
	}
	ok := vAnd(z.form == x.form, z.neg == x.neg)
	if fx == fFinite {
		ok = vAnd(ok, z.exp == x.exp)
		n := len(z.mant)
		if n == 0 {
			ok = false
		} else {
			ok = vAnd(ok, sEq(sMulPow10(sFromWords(z.mant), _DW*w), sMulPow10(specMant(x), _DW*n)))
		}
		vAssert("C11.exact", z.acc == Exact)
	}
	vAssert("C11.roundtrip", ok)
	vReach("end")
}
