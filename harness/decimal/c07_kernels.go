//go:build verif

package decimal

// C07: amd64 assembly kernels == portable Go twins == mathematical definition.
//
// vAsm_<k> is executed by p9sym (symbolic execution of the TEXT block of the
// current dec_arith_amd64.s); natively it calls the linked routine, which is the
// assembly in the default build.

func vAsm_mul10WW(x, y Word) (z1, z0 Word)            { return mul10WW(x, y) }
func vAsm_div10WW(x1, x0, y Word) (q, r Word)         { return div10WW(x1, x0, y) }
func vAsm_div10W(n1, n0 Word) (q, r Word)             { return div10W(n1, n0) }
func vAsm_add10VV(z, x, y []Word) (c Word)            { return add10VV(z, x, y) }
func vAsm_sub10VV(z, x, y []Word) (c Word)            { return sub10VV(z, x, y) }
func vAsm_add10VW(z, x []Word, y Word) (c Word)       { return add10VW(z, x, y) }
func vAsm_sub10VW(z, x []Word, y Word) (c Word)       { return sub10VW(z, x, y) }
func vAsm_shl10VU(z, x []Word, s uint) (c Word)       { return shl10VU(z, x, s) }
func vAsm_shr10VU(z, x []Word, s uint) (c Word)       { return shr10VU(z, x, s) }
func vAsm_mulAdd10VWW(z, x []Word, y, r Word) (c Word) { return mulAdd10VWW(z, x, y, r) }
func vAsm_addMul10VVW(z, x []Word, y Word) (c Word)   { return addMul10VVW(z, x, y) }
func vAsm_div10VWW(z, x []Word, y, xn Word) (r Word)  { return div10VWW(z, x, y, xn) }

// world builds one copy of the operand vectors with the overlap pattern ov:
//
//	0 disjoint   1 z is x   2 z is y (three-vector kernels)
//	3 z = buf[0:n], x = buf[1:n+1]  (shr10VU as called by dec.shr / convertWords)
//	4 z = buf[1:n+1], x = buf[0:n]  (shl10VU writing above its source)
type world struct{ z, x, y []Word }

func mkWorld(n, ov int, xs, ys, zs []Word) world {
	var w world
	switch ov {
	case 1:
		w.x = make([]Word, n)
		copy(w.x, xs)
		w.z = w.x
	case 3:
		buf := make([]Word, n+1)
		buf[0] = zs[0]
		copy(buf[1:], xs)
		w.z, w.x = buf[0:n], buf[1:n+1]
	case 4:
		buf := make([]Word, n+1)
		copy(buf, xs)
		if n > 0 {
			buf[n] = zs[n-1]
		}
		w.x, w.z = buf[0:n], buf[1:n+1]
	default:
		w.x = make([]Word, n)
		copy(w.x, xs)
		w.z = make([]Word, n)
		copy(w.z, zs)
	}
	if ys != nil {
		if ov == 2 {
			w.y = make([]Word, n)
			copy(w.y, ys)
			w.z = w.y
		} else {
			w.y = make([]Word, n)
			copy(w.y, ys)
		}
	}
	return w
}

func vWords(name string, n int, hi uint64) []Word {
	v := make([]Word, n)
	for i := range v {
		v[i] = Word(vU64(vN(name, i), 0, hi))
	}
	return v
}

func sameWords(a, b []Word) bool {
	ok := true
	for i := range a {
		ok = vAnd(ok, a[i] == b[i])
	}
	return ok
}

// H_C07_vec: vector kernels, cfg k selects the kernel.
func H_C07_vec() {
	k, n, ov := vCfg("k"), vCfg("n"), vCfgOr("ov", 0)
	xs := vWords("x", n, _DMax)
	zs := vWords("z", n+1, ^uint64(0)) // old destination contents: arbitrary
	var ys []Word
	if k == 0 || k == 1 {
		ys = vWords("y", n, _DMax)
	}
	if k == 6 {
		// addMul10VVW reads z: its words are below the base
		for i := range zs {
			vAssume(zs[i] < _DB)
		}
	}
	a := mkWorld(n, ov, xs, ys, zs)
	g := mkWorld(n, ov, xs, ys, zs)
	X := sFromWords(xs)
	noasm := vCfgOr("noasm", 0) == 1
	var ca, cg Word
	switch k {
	case 0:
		cg = add10VV_g(g.z, g.x, g.y)
		if !noasm {
			ca = vAsm_add10VV(a.z, a.x, a.y)
		}
		vAssert("C07.def", vAnd(sEq(sAdd(sFromWords(g.z), sMulPow10(sU(uint64(cg)), _DW*n)), sAdd(X, sFromWords(ys))), cg <= 1))
	case 1:
		cg = sub10VV_g(g.z, g.x, g.y)
		if !noasm {
			ca = vAsm_sub10VV(a.z, a.x, a.y)
		}
		vAssert("C07.def", vAnd(sEq(sSub(sFromWords(g.z), sMulPow10(sU(uint64(cg)), _DW*n)), sSub(X, sFromWords(ys))), cg <= 1))
	case 2:
		y := Word(vU64("yw", 0, _DMax))
		cg = add10VW_g(g.z, g.x, y)
		if !noasm {
			ca = vAsm_add10VW(a.z, a.x, y)
		}
		if n > 0 {
			vAssert("C07.def", vAnd(sEq(sAdd(sFromWords(g.z), sMulPow10(sU(uint64(cg)), _DW*n)), sAdd(X, sU(uint64(y)))), cg <= 1))
		} else {
			vAssert("C07.def", cg == y)
		}
	case 3:
		y := Word(vU64("yw", 0, _DMax))
		cg = sub10VW_g(g.z, g.x, y)
		if !noasm {
			ca = vAsm_sub10VW(a.z, a.x, y)
		}
		if n > 0 {
			vAssert("C07.def", vAnd(sEq(sSub(sFromWords(g.z), sMulPow10(sU(uint64(cg)), _DW*n)), sSub(X, sU(uint64(y)))), cg <= 1))
		} else {
			vAssert("C07.def", cg == y)
		}
	case 4:
		s := uint(vCfg("s"))
		cg = shl10VU_g(g.z, g.x, s)
		if !noasm {
			ca = vAsm_shl10VU(a.z, a.x, s)
		}
		if n > 0 {
			vAssert("C07.def", vAnd(sEq(sAdd(sFromWords(g.z), sMulPow10(sU(uint64(cg)), _DW*n)), sMulPow10(X, int(s))), sLt(sU(uint64(cg)), sPow10(int(s)))))
		}
	case 5:
		s := uint(vCfg("s"))
		cg = shr10VU_g(g.z, g.x, s)
		if !noasm {
			ca = vAsm_shr10VU(a.z, a.x, s)
		}
		if n > 0 && s > 0 {
			// X = Z*10^s + rho, returned word = rho * 10^(19-s)
			rho := sModPow10(X, int(s))
			vAssert("C07.def", vAnd(sEq(sFromWords(g.z), sDivPow10(X, int(s))), sEq(sU(uint64(cg)), sMulPow10(rho, _DW-int(s)))))
		}
	case 6:
		y := Word(vU64("yw", 0, _DMax))
		zold := sFromWords(g.z)
		cg = addMul10VVW_g(g.z, g.x, y)
		if !noasm {
			ca = vAsm_addMul10VVW(a.z, a.x, y)
		}
		vAssert("C07.def", vAnd(sEq(sAdd(sFromWords(g.z), sMulPow10(sU(uint64(cg)), _DW*n)), sAdd(zold, sMul(X, sU(uint64(y))))), cg < _DB))
	case 7:
		y := Word(vU64("yw", 0, _DMax))
		r := Word(vU64("rw", 0, _DMax))
		cg = mulAdd10VWW_g(g.z, g.x, y, r)
		if !noasm {
			ca = vAsm_mulAdd10VWW(a.z, a.x, y, r)
		}
		vAssert("C07.def", vAnd(sEq(sAdd(sFromWords(g.z), sMulPow10(sU(uint64(cg)), _DW*n)), sAdd(sMul(X, sU(uint64(y))), sU(uint64(r)))), cg < _DB))
	case 8:
		y := Word(vU64("yw", 1, _DMax))
		xn := Word(vU64("xn", 0, _DMax))
		vAssume(xn < y)
		cg = div10VWW_g(g.z, g.x, y, xn)
		if !noasm {
			ca = vAsm_div10VWW(a.z, a.x, y, xn)
		}
		vAssert("C07.def", vAnd(sEq(sAdd(sMulPow10(sU(uint64(xn)), _DW*n), X), sAdd(sMul(sFromWords(g.z), sU(uint64(y))), sU(uint64(cg)))), cg < y))
	}
	if !noasm {
		vAssert("C07.equiv.ret", ca == cg)
		vAssert("C07.equiv.vec", sameWords(a.z, g.z))
	}
	ok := true
	for i := range g.z {
		ok = vAnd(ok, g.z[i] < _DB)
	}
	vAssert("C07.def.words", ok)
	if ov == 0 {
		vAssert("C07.frame", vAnd(sameWords(a.x, xs), sameWords(g.x, xs)))
	}
	vReach("end")
}

// H_C07_word: word kernels.
func H_C07_word() {
	k := vCfg("k")
	switch k {
	case 0: // mul10WW
		x, y := Word(vU64("x", 0, _DMax)), Word(vU64("y", 0, _DMax))
		a1, a0 := vAsm_mul10WW(x, y)
		g1, g0 := mul10WW_g(x, y)
		vAssert("C07.equiv.ret", vAnd(a1 == g1, a0 == g0))
		P := sMul(sU(uint64(x)), sU(uint64(y)))
		vAssert("C07.def", vAnd(sEq(sAdd(sMulPow10(sU(uint64(g1)), _DW), sU(uint64(g0))), P), vAnd(g0 < _DB, g1 < _DB)))
	case 1: // div10WW
		u1, u0 := Word(vU64("u1", 0, _DMax)), Word(vU64("u0", 0, _DMax))
		v := Word(vU64("v", 1, _DMax))
		vAssume(u1 < v)
		aq, ar := vAsm_div10WW(u1, u0, v)
		gq, gr := div10WW_g(u1, u0, v)
		vAssert("C07.equiv.ret", vAnd(aq == gq, ar == gr))
		N := sAdd(sMulPow10(sU(uint64(u1)), _DW), sU(uint64(u0)))
		vAssert("C07.def", vAnd(sEq(N, sAdd(sMul(sU(uint64(gq)), sU(uint64(v))), sU(uint64(gr)))), gr < v))
	case 2: // div10W: real bodies on both sides (this is the proof of the div10W_g contract)
		n1, n0 := Word(vU64("n1", 0, _DMax)), Word(vU64("n0", 0, ^uint64(0)))
		aq, ar := vAsm_div10W(n1, n0)
		gq, gr := div10W_g(n1, n0)
		vAssert("C07.equiv.ret", vAnd(aq == gq, ar == gr))
		N := sAdd(sMulPow2(sU(uint64(n1)), 64), sU(uint64(n0)))
		vAssert("C07.def", vAnd(sEq(N, sAdd(sMulPow10(sU(uint64(gq)), _DW), sU(uint64(gr)))), gr < _DB))
	case 3: // magic.div rows (contract of the division-by-constant table)
		row := vCfg("row")
		n := Word(vU64("n", 0, ^uint64(0)))
		m := pow10DivTab64[row]
		q, r := m.div(n)
		vAssert("C07.def", vAnd(sEq(sU(uint64(q)), sDivPow10(sU(uint64(n)), row+1)), sEq(sU(uint64(r)), sModPow10(sU(uint64(n)), row+1))))
		vAssert("C07.def.table", m.d == pow10tab[row+1])
	case 4: // decDigits64 contract
		x := vU64("x", 0, ^uint64(0))
		d := decDigits64(x)
		dc := int(vConcU(uint64(d)))
		if dc == 0 {
			vAssert("C07.def", x == 0)
		} else {
			vAssert("C07.def", vAnd(sLe(sPow10(dc-1), sU(x)), vOr(dc == 20, sLt(sU(x), sPow10(dc)))))
		}
	}
	vReach("end")
}

func vAsm_divWVW(z []Word, xn Word, x []Word, y Word) (r Word) { return divWVW(z, xn, x, y) }

// H_C07_divWVW: the one base-2^64 kernel the library uses (setNat divides by 10^19).
func H_C07_divWVW() {
	n, ov := vCfg("n"), vCfgOr("ov", 1)
	xs := vWords("x", n, ^uint64(0))
	zs := vWords("z", n+1, ^uint64(0))
	a := mkWorld(n, ov, xs, nil, zs)
	g := mkWorld(n, ov, xs, nil, zs)
	y := Word(_DB)
	if vCfgOr("anyy", 0) == 1 {
		y = Word(vU64("y", 1, ^uint64(0)))
	}
	xn := Word(vU64("xn", 0, ^uint64(0)))
	vAssume(xn < y)
	ra := vAsm_divWVW(a.z, xn, a.x, y)
	rg := divWVW_g(g.z, xn, g.x, y)
	vAssert("C07.equiv.ret", ra == rg)
	vAssert("C07.equiv.vec", sameWords(a.z, g.z))
	X := sAdd(sMulPow2(sU(uint64(xn)), 64*n), sFromBinWords2(xs))
	vAssert("C07.def", vAnd(sEq(X, sAdd(sMul(sFromBinWords2(g.z), sU(uint64(y))), sU(uint64(rg)))), rg < y))
	vReach("end")
}

// sFromBinWords2 is sFromBinWords for decimal.Word slices holding binary words.
func sFromBinWords2(w []Word) sInt {
	r := sU(0)
	for i := len(w) - 1; i >= 0; i-- {
		r = sAdd(sMulPow2(r, 64), sU(uint64(w[i])))
	}
	return r
}
