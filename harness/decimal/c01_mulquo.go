//go:build verif

package decimal

// C01/C02/C04/C08/C09: Mul and Quo of finite operands.

func H_C01_mul() {
	wx, wy, p := vCfg("wx"), vCfg("wy"), vCfg("p")
	alias := vCfgOr("alias", 0)
	px, py := vCfgOr("px", 0), vCfgOr("py", 0)
	if alias == 1 {
		px = p
	}
	if alias == 2 {
		py = p
	}
	x := vDec("x", fFinite, wx, vCfgOr("capx", 0), px)
	y := x
	if vCfgOr("same", 0) == 0 {
		y = vDec("y", fFinite, wy, vCfgOr("capx", 0), py)
		if vCfgOr("ypat0", -1) >= 0 {
			// concrete multiplier mantissa: the product is then linear in x, and rounding "needles"
			// (exact ties, all-nines carries deep in the product) are within the solver's reach
			for i := 0; i < wy; i++ {
				y.mant[i] = patWord(vCfg(vN("ypat", i)))
			}
		}
	}
	z := receiver(alias, x, y, p)
	if vCfgOr("p0", 0) == 1 {
		z.prec = 0
		p = maxInt(vCfgOr("px", 0), vCfgOr("py", 0))
	}
	mode := z.mode
	S := sMul(specMant(x), specMant(y))
	e0 := int64(x.exp) - int64(wx*_DW) + int64(y.exp) - int64(wy*_DW)
	neg := x.neg != y.neg
	xs, ys := snap(x), snap(y)
	k := vCatch(func() { z.Mul(x, y) })
	vAssert("C04.nopanic", k == 0)
	n := (wx + wy) * _DW
	r := roundRef(S, false, e0, p, mode, neg, n-1, n)
	refMatch("C01.value", "C02.acc", z, r, neg)
	vAssert("C08.inv", invOK(z))
	vAssert("C09.prec", z.prec == uint32(p))
	vAssert("C09.mode", z.mode == mode)
	if alias != 1 {
		vAssert("C09.operand", unchanged(x, xs))
	}
	if alias != 2 && y != z {
		vAssert("C09.operand", unchanged(y, ys))
	}
	vReach("end")
}

func H_C01_quo() {
	wx, wy, p := vCfg("wx"), vCfg("wy"), vCfg("p")
	alias := vCfgOr("alias", 0)
	px, py := 0, 0
	if alias == 1 {
		px = p
	}
	if alias == 2 {
		py = p
	}
	x := vDec("x", fFinite, wx, vCfgOr("capx", 0), px)
	y := vDec("y", fFinite, wy, vCfgOr("capx", 0), py)
	if vCfgOr("ypat0", -1) >= 0 {
		// concrete divisor mantissa from the extremal pattern list: the real long
		// division then involves no product of two unknowns
		for i := 0; i < wy; i++ {
			y.mant[i] = patWord(vCfg(vN("ypat", i)))
		}
	}
	z := receiver(alias, x, y, p)
	mode := z.mode
	// the library extends the dividend by dd words so that the quotient has
	// at least p+1 digits; the reference divides the same extended integer
	nw := p/_DW + 1
	dd := nw - wx + wy
	if dd < 0 {
		dd = 0
	}
	X := sMulPow10(specMant(x), _DW*dd)
	Y := specMant(y)
	Q := sDiv(X, Y)
	R := sMod(X, Y)
	e0 := int64(x.exp) - int64(wx*_DW) - (int64(y.exp) - int64(wy*_DW)) - int64(dd*_DW)
	neg := x.neg != y.neg
	xs, ys := snap(x), snap(y)
	k := vCatch(func() { z.Quo(x, y) })
	vAssert("C04.nopanic", k == 0)
	qw := wx + dd - wy // quotient has qw or qw+1 words
	r := roundRef(Q, !sIsZero(R), e0, p, mode, neg, (qw-1)*_DW+1, (qw+1)*_DW)
	refMatch("C01.value", "C02.acc", z, r, neg)
	vAssert("C08.inv", invOK(z))
	vAssert("C09.prec", z.prec == uint32(p))
	vAssert("C09.mode", z.mode == mode)
	if alias != 1 {
		vAssert("C09.operand", unchanged(x, xs))
	}
	if alias != 2 {
		vAssert("C09.operand", unchanged(y, ys))
	}
	vReach("end")
}
