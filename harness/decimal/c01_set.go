//go:build verif

package decimal

// C01/C02/C09: Set, Neg, Abs, Copy, SetMode, SetInf (single operand).

func H_C01_set() {
	which := vCfg("which") // 0 Set, 1 Neg, 2 Abs
	fx, w, p := vCfgOr("fx", fFinite), vCfgOr("w", 1), vCfg("p")
	pxv := vCfgOr("px", 0)
	if vCfgOr("alias", 5) == 1 {
		pxv = p // the receiver is x itself: its precision is x's
	}
	x := vDec("x", fx, w, 0, pxv)
	xs := snap(x)
	z := receiver(vCfgOr("alias", 5), x, x, p)
	if vCfgOr("p0", 0) == 1 {
		z.prec = 0
		p = vCfg("px")
	}
	mode := z.mode
	k := vCatch(func() {
		switch which {
		case 0:
			z.Set(x)
		case 1:
			z.Neg(x)
		case 2:
			z.Abs(x)
		}
	})
	vAssert("C04.nopanic", k == 0)
	// statement: Neg/Abs round (with x's sign) and then change the sign
	rneg := xs.neg
	wneg := xs.neg
	if which == 1 {
		wneg = !xs.neg
	}
	if which == 2 {
		wneg = false
	}
	if fx == fFinite {
		r := roundRef(specMantSnap(xs), false, int64(xs.exp)-int64(w*_DW), p, mode, rneg, w*_DW, w*_DW)
		if r.form == finite || which == 0 {
			refMatchSign("C01.value", "C02.acc", z, r, wneg)
		} else {
			refMatchSign("C01.value", "", z, r, wneg)
		}
	} else {
		vAssert("C01.value", vAnd(int(z.form) == fx, z.neg == wneg))
		vAssert("C02.acc", z.acc == Exact)
	}
	vAssert("C08.inv", invOK(z))
	if fx == fFinite || vCfgOr("p0", 0) == 0 {
		vAssert("C09.prec", z.prec == uint32(p))
	}
	vAssert("C09.mode", z.mode == mode)
	if x != z {
		vAssert("C09.operand", unchanged(x, xs))
	}
	vReach("end")
}
