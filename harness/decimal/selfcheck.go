//go:build verif

package decimal

// H_self_concrete: translator validation. Everything here is concrete, so
// gosym acts as a plain interpreter of the real code (parsing, multi-word Mul,
// long division, Sub, the Newton iteration of Sqrt incl. its float64 seed, FMA,
// conversions, gob, formatting); the expected strings were produced by the
// native build. A difference means the executor's instruction semantics (or an
// intrinsic) is wrong. Run by `gosym selfcheck` (MANIFEST.setup_cmd).
func H_self_concrete() {
	p := func(s string, prec uint, m RoundingMode) *Decimal {
		d, _, err := new(Decimal).SetPrec(prec).SetMode(m).Parse(s, 10)
		vAssert("self.parse", err == nil)
		return d
	}
	pi := p("3.14159265358979323846264338327950288419716939937510", 50, ToNearestEven)
	e := p("2.71828182845904523536028747135266249775724709369995", 50, ToNearestEven)
	z := new(Decimal).SetPrec(40)
	vAssert("self.mul", vAnd(z.Mul(pi, e).Text('e', -1) == "8.539734222673567065463550869546574495035e+00", z.Acc() == Above))
	vAssert("self.quo", vAnd(z.SetMode(ToZero).Quo(pi, e).Text('g', -1) == "1.15572734979092171791009318331269629912", z.Acc() == Below))
	vAssert("self.sub", vAnd(z.SetMode(AwayFromZero).Sub(pi, e).Text('f', 30) == "0.423310825130748003102355911927", z.Acc() == Above))
	vAssert("self.sqrt", z.SetMode(ToNearestEven).SetPrec(25).Sqrt(pi).Text('e', -1) == "1.772453850905516027298167e+00")
	vAssert("self.fma", vAnd(z.SetPrec(60).FMA(pi, e, pi).Text('e', -1) == "1.1681326876263360303926194252826077379232057935140326137816e+01", z.Acc() == Above))
	i, a := pi.Int64()
	vAssert("self.int64", vAnd(i == 3, a == Below))
	b, _ := pi.GobEncode()
	vAssert("self.gob", vAnd(len(b) == 34, vAnd(b[1] == 10, b[len(b)-1] == 128)))
	vAssert("self.setfloat64", new(Decimal).SetPrec(5).SetMode(ToNegativeInf).SetFloat64(-0.1).Text('e', -1) == "-1e-01")
	vAssert("self.uint64", new(Decimal).SetUint64(18446744073709551615).Text('f', 2) == "18446744073709551615.00")
	vReach("end")
}
