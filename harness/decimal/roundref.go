//go:build verif

package decimal

// roundRef is the reference "exact value rounded once" (DESIGN A.2).
//
// The exact magnitude is X = (S + sticky*eps) * 10^e with S >= 1 an unbounded
// integer and 0 < eps < 1. It is rounded to p >= 1 significant digits under
// mode, for a value of sign neg. kmin..kmax bound the number of digits of S
// (the caller knows them from the shapes; the digit count is case-split).

type refResult struct {
	form form  // zero (underflow), finite, inf (overflow)
	exp  int64 // decimal exponent E: value = 0.d1d2...dp x 10^E
	M    sInt  // p-digit integer mantissa (10^(p-1) <= M < 10^p)
	p    int
	acc  Accuracy
}

func specDigits(S sInt, kmin, kmax int) int {
	// the caller's bounds are themselves checked, so a wrong bound cannot hide a path
	vAssert("ref.digits-range", vAnd(sLe(sPow10(kmin-1), S), sLt(S, sPow10(kmax))))
	k := int64(kmax)
	for j := kmax - 1; j >= kmin; j-- {
		k = vIteI(sLt(S, sPow10(j)), int64(j), k)
	}
	return int(vConcI(k))
}

// specInc is the textbook increment decision.
func specInc(mode RoundingMode, neg bool, gt, tie, odd bool) bool {
	switch mode {
	case ToNearestEven:
		return vOr(gt, vAnd(tie, odd))
	case ToNearestAway:
		return vOr(gt, tie)
	case ToZero:
		return false
	case AwayFromZero:
		return true
	case ToNegativeInf:
		return neg
	case ToPositiveInf:
		return !neg
	}
	return false
}

func roundRef(S sInt, sticky bool, e int64, p int, mode RoundingMode, neg bool, kmin, kmax int) refResult {
	k := specDigits(S, kmin, kmax)
	E := e + int64(k)
	var r refResult
	r.p = p
	if E < MinExp {
		r.form = zero
		r.acc = makeAcc(neg)
		return r
	}
	if E > MaxExp {
		r.form = inf
		r.acc = makeAcc(!neg)
		return r
	}
	r.form = finite
	if k <= p {
		// callers guarantee more than p digits whenever sticky can be set
		vAssert("ref.sticky-needs-digits", !sticky)
		r.M = sMulPow10(S, p-k)
		r.exp = E
		r.acc = Exact
		return r
	}
	t := k - p
	q := sDivPow10(S, t)
	rem := sModPow10(S, t)
	half := sMulPow10(sU(5), t-1)
	lost := vOr(!sIsZero(rem), sticky)
	gt := vOr(sLt(half, rem), vAnd(sEq(rem, half), sticky))
	tie := vAnd(sEq(rem, half), !sticky)
	odd := sOdd(sModPow10(q, 1)) // parity of q = parity of its last digit
	inc := vAnd(lost, specInc(mode, neg, gt, tie, odd))
	M := sAdd(q, sIte(inc, sU(1), sU(0)))
	carry := sEq(M, sPow10(p))
	if carry {
		M = sPow10(p - 1)
		E++
		if E > MaxExp {
			r.form = inf
			r.acc = makeAcc(!neg)
			return r
		}
	}
	r.M = M
	r.exp = E
	r.acc = Exact
	if lost {
		r.acc = makeAcc(inc != neg)
	}
	return r
}

// refMatch asserts that z holds exactly the reference result.
func refMatch(idv, ida string, z *Decimal, r refResult, neg bool) {
	if r.form != finite {
		vAssert(idv, vAnd(z.form == r.form, z.neg == neg))
		vAssert(ida, z.acc == r.acc)
		return
	}
	n := len(z.mant)
	ok := vAnd(z.form == finite, z.neg == neg)
	ok = vAnd(ok, int64(z.exp) == r.exp)
	if n > 0 {
		ok = vAnd(ok, sEq(sMulPow10(sFromWords(z.mant), r.p), sMulPow10(r.M, _DW*n)))
	} else {
		ok = false
	}
	vAssert(idv, ok)
	vAssert(ida, z.acc == r.acc)
}

// refMatchSign is refMatch with separate sign expectation and optional accuracy id.
func refMatchSign(idv, ida string, z *Decimal, r refResult, neg bool) {
	if ida == "" {
		if r.form != finite {
			vAssert(idv, vAnd(z.form == r.form, z.neg == neg))
			return
		}
	}
	refMatch(idv, ida, z, r, neg)
}
