//go:build verif

package decimal

import "math/big"

// C05 (decidable part): special values, panics, precision/mode preservation,
// operand unchanged and the exponent bookkeeping around the Newton iteration.
//
// The iteration itself (float64 seed, growing-precision products) is replaced
// by a stub with the same frame: "z is overwritten by z.Mul(z, t)" for a fixed valid t.
// The real Mul runs, so what Sqrt does to prec/mode/acc is the real behaviour.

func vStub_sqrtInverse(z, x *Decimal) {
	// a fixed valid multiplier keeps the arithmetic linear; the value of the
	// root is not claimed (see DESIGN), only what Sqrt does around the iteration
	z.Mul(z, three)
}

func H_C05_sqrt() {
	fx, w, p := vCfg("fx"), vCfgOr("w", 1), vCfgOr("p", 5)
	x := vDec("x", fx, w, 0, 0)
	if vCfgOr("neg", 0) == 1 {
		vAssume(x.neg)
	} else if fx != fZero {
		vAssume(!x.neg)
	}
	xs := snap(x)
	z := vDec("z", vCfgOr("zf", fZero), 1, 0, p)
	if vCfgOr("p0", 0) == 1 {
		z.prec = 0
	}
	mode := z.mode
	k := vCatch(func() { z.Sqrt(x) })
	if vCfgOr("neg", 0) == 1 && fx != fZero {
		vAssert("C04.errnan", k == 1)
		vAssert("C08.inv", invOK(z))
		return
	}
	vAssert("C04.nopanic", k == 0)
	if fx != fFinite {
		vAssert("C05.special", vAnd(int(z.form) == fx, z.neg == x.neg))
		vAssert("C02.acc", z.acc == Exact)
	} else {
		vAssert("C05.sign", vImp(z.form != zero, !z.neg))
	}
	if vCfgOr("p0", 0) == 1 {
		vAssert("C09.prec", z.prec == xs.prec)
	} else {
		vAssert("C09.prec", z.prec == uint32(p))
	}
	vAssert("C09.mode", z.mode == mode)
	vAssert("C09.operand", unchanged(x, xs))
	vAssert("C08.inv", invOK(z))
	vReach("end")
}

// H_C05_alias: Sqrt gives the same result when the receiver is the operand
// itself (exponent parity/halving bookkeeping must not read x after it was overwritten).
func H_C05_alias() {
	w := vCfgOr("w", 1)
	x := vDec("x", fFinite, w, 0, vCfgOr("px", w*_DW))
	vAssume(!x.neg)
	y := new(Decimal).Copy(x) // same value, precision and mode
	z := new(Decimal).SetMode(x.mode).SetPrec(uint(x.prec))
	k1 := vCatch(func() { z.Sqrt(x) })
	k2 := vCatch(func() { y.Sqrt(y) })
	vAssert("C04.nopanic", vAnd(k1 == 0, k2 == 0))
	ok := vAnd(z.form == y.form, vAnd(z.neg == y.neg, vAnd(z.prec == y.prec, z.mode == y.mode)))
	if z.form == finite && y.form == finite {
		ok = vAnd(ok, vAnd(z.exp == y.exp, len(z.mant) == len(y.mant)))
		if len(z.mant) == len(y.mant) {
			ok = vAnd(ok, sEq(sFromWords(z.mant), sFromWords(y.mant)))
		}
	}
	vAssert("C05.alias", ok)
	vReach("end")
}

// vStub_sqrtTruncate: companion of vStub_sqrtInverse for the jobs that replace
// the iteration (the exact-floor search only terminates from a real approximation).
func vStub_sqrtTruncate(z, x *Decimal) {}

// sqCmp compares T^2 * 10^e1 with X * 10^e2.
func sqCmp(T sInt, e1 int, X sInt, e2 int) (lt, eq bool) {
	L, R := sMul(T, T), X
	if e1 >= e2 {
		L = sMulPow10(L, e1-e2)
	} else {
		R = sMulPow10(R, e2-e1)
	}
	return sLt(L, R), sEq(L, R)
}

// H_C05_root: the numeric half of C05 on the REAL Sqrt (float64 seed, Newton
// iteration, final rounding; no stub). The operand is concrete - the iteration
// starts from math.Sqrt of a float64, which the executor interprets only
// concretely - and is taken from a family built around the hard cases: perfect
// squares, their neighbours, exact midpoints, odd and even exponents. The
// rounding mode is symbolic. The oracle does not compute a root: r (p digits)
// is the correctly rounded root of x iff, with prev/next the neighbouring
// p-digit values,
//
//	r^2 == x, or
//	r^2 < x < next^2  and the mode rounds down here (directed down; nearest and x below/at the midpoint per tie rule), or
//	prev^2 < x < r^2  and the mode rounds up here,
//
// all decided on integers (squares compared after scaling to a common exponent).
func H_C05_root() {
	k, p := vCfg("k"), vCfg("p")
	// x = (k^2 + delta) * 10^xe, or the exact midpoint (k+1/2)^2 = (2k+1)^2 * 25 * 10^(xe-2)
	K := new(big.Int).SetInt64(int64(k))
	if vCfgOr("mid", 0) == 1 {
		K.Mul(K, big.NewInt(2)).Add(K, big.NewInt(1))
		K.Mul(K, K).Mul(K, big.NewInt(25))
	} else {
		if vCfgOr("sq", 1) == 1 {
			K.Mul(K, K)
		}
		K.Add(K, big.NewInt(int64(vCfgOr("delta", 0))))
	}
	x := new(Decimal).SetInt(K) // precision 0: exact
	xe := vCfgOr("xe", 0)
	if vCfgOr("mid", 0) == 1 {
		xe -= 2
	}
	x.SetMantExp(x, xe)
	vAssert("C05.setup", vAnd(x.form == finite, x.acc == Exact))
	xs := snap(x)
	z := new(Decimal).SetPrec(uint(p))
	z.mode = RoundingMode(vI64("z.mode", 0, 5))
	mode := z.mode
	c := vCatch(func() { z.Sqrt(x) })
	vAssert("C04.nopanic", c == 0)
	if c != 0 {
		return
	}
	vAssert("C09.prec", z.prec == uint32(p))
	vAssert("C09.mode", z.mode == mode)
	vAssert("C09.operand", unchanged(x, xs))
	vAssert("C08.inv", invOK(z))
	vAssert("C05.sign", vAnd(z.form == finite, !z.neg))
	if z.form != finite {
		return
	}
	n := len(z.mant)
	zexp := int(vConcI(int64(z.exp)))
	R := sDivPow10(sFromWords(z.mant), _DW*n-p) // p-digit integer mantissa (invOK: nothing below)
	X4 := sMul(sFromWords(x.mant), sU(4))       // 4x = X4 * 10^e2
	e2 := int(x.exp) - _DW*len(x.mant)
	// r = T/2 * 10^(zexp-p-1) with T = 20 R, so r^2 ? x  <=>  T^2 * 10^e1 ? 4x
	e1 := 2 * (zexp - p - 1)
	T := sMul(R, sU(20))
	isPow := sEq(R, sPow10(p-1))
	next := sAdd(T, sU(20))
	prev := sIte(isPow, sSub(T, sU(2)), sSub(T, sU(20)))
	midUp := sAdd(T, sU(10))
	midDn := sIte(isPow, sSub(T, sU(1)), sSub(T, sU(10)))
	floorOddDn := vOr(isPow, sOdd(sSub(R, sU(1)))) // parity of prev's mantissa
	lt0, eq0 := sqCmp(T, e1, X4, e2)
	ltN, eqN := sqCmp(next, e1, X4, e2)
	ltP, _ := sqCmp(prev, e1, X4, e2)
	ltMu, eqMu := sqCmp(midUp, e1, X4, e2)
	ltMd, eqMd := sqCmp(midDn, e1, X4, e2)
	gt0 := vAnd(!lt0, !eq0)
	// faithful: x lies strictly between the squares of r's neighbours
	vAssert("C05.root.faithful", vOr(eq0, vOr(vAnd(lt0, vAnd(!ltN, !eqN)), vAnd(gt0, ltP))))
	down := vOr(mode == ToZero, mode == ToNegativeInf)
	up := vOr(mode == AwayFromZero, mode == ToPositiveInf)
	even, away := mode == ToNearestEven, mode == ToNearestAway
	// r is the floor: fine if the mode rounds down here
	okFloor := vOr(down, vAnd(vOr(even, away), vOr(vAnd(!ltMu, !eqMu), vAnd(eqMu, vAnd(even, !sOdd(R))))))
	// r is the ceiling: fine if the mode rounds up here
	okCeil := vOr(up, vAnd(vOr(even, away), vOr(ltMd, vAnd(eqMd, vOr(away, floorOddDn)))))
	vAssert("C05.root.rounded", vOr(eq0, vOr(vAnd(lt0, okFloor), vAnd(gt0, okCeil))))
	vReach("end")
}
