//go:build verif

package decimal

// C05 (decidable part): special values, panics, precision/mode preservation,
// operand unchanged and the exponent bookkeeping around the Newton iteration.
//
// The iteration itself (float64 seed, growing-precision products) is replaced
// by a stub with the same frame: "z is overwritten by z.Mul(z, t)" for a fixed valid t.
// The real Mul runs, so what Sqrt does to prec/mode/acc is the real behaviour.

func vStub_sqrtInverse(z, x *Decimal) {
	// a fixed valid multiplier keeps the arithmetic linear; the value of the
	// root is not claimed (see DESIGN), only what Sqrt does around the iteration
	z.Mul(z, three)
}

func H_C05_sqrt() {
	fx, w, p := vCfg("fx"), vCfgOr("w", 1), vCfgOr("p", 5)
	x := vDec("x", fx, w, 0, 0)
	if vCfgOr("neg", 0) == 1 {
		vAssume(x.neg)
	} else if fx != fZero {
		vAssume(!x.neg)
	}
	xs := snap(x)
	z := vDec("z", vCfgOr("zf", fZero), 1, 0, p)
	if vCfgOr("p0", 0) == 1 {
		z.prec = 0
	}
	mode := z.mode
	k := vCatch(func() { z.Sqrt(x) })
	if vCfgOr("neg", 0) == 1 && fx != fZero {
		vAssert("C04.errnan", k == 1)
		vAssert("C08.inv", invOK(z))
		return
	}
	vAssert("C04.nopanic", k == 0)
	if fx != fFinite {
		vAssert("C05.special", vAnd(int(z.form) == fx, z.neg == x.neg))
		vAssert("C02.acc", z.acc == Exact)
	} else {
		vAssert("C05.sign", vImp(z.form != zero, !z.neg))
	}
	if vCfgOr("p0", 0) == 1 {
		vAssert("C09.prec", z.prec == xs.prec)
	} else {
		vAssert("C09.prec", z.prec == uint32(p))
	}
	vAssert("C09.mode", z.mode == mode)
	vAssert("C09.operand", unchanged(x, xs))
	vAssert("C08.inv", invOK(z))
	vReach("end")
}

// H_C05_alias: Sqrt gives the same result when the receiver is the operand
// itself (exponent parity/halving bookkeeping must not read x after it was overwritten).
func H_C05_alias() {
	w := vCfgOr("w", 1)
	x := vDec("x", fFinite, w, 0, vCfgOr("px", w*_DW))
	vAssume(!x.neg)
	y := new(Decimal).Copy(x) // same value, precision and mode
	z := new(Decimal).SetMode(x.mode).SetPrec(uint(x.prec))
	k1 := vCatch(func() { z.Sqrt(x) })
	k2 := vCatch(func() { y.Sqrt(y) })
	vAssert("C04.nopanic", vAnd(k1 == 0, k2 == 0))
	ok := vAnd(z.form == y.form, vAnd(z.neg == y.neg, vAnd(z.prec == y.prec, z.mode == y.mode)))
	if z.form == finite && y.form == finite {
		ok = vAnd(ok, vAnd(z.exp == y.exp, len(z.mant) == len(y.mant)))
		if len(z.mant) == len(y.mant) {
			ok = vAnd(ok, sEq(sFromWords(z.mant), sFromWords(y.mant)))
		}
	}
	vAssert("C05.alias", ok)
	vReach("end")
}
