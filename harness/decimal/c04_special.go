//go:build verif

package decimal

// C04: special values follow IEEE-754; only ErrNaN panics; receiver valid afterwards.
// Operands take every form class; finite operands are arbitrary (1 word).

// expected outcome classes
const (
	oPanic  = -1 // ErrNaN
	oZero   = 0
	oFinite = 1 // finite arithmetic path (checked by C01)
	oInf    = 2
)

func H_C04_binary() {
	op := vCfg("op") // 0 Add 1 Sub 2 Mul 3 Quo
	fx, fy := vCfg("fx"), vCfg("fy")
	alias := vCfgOr("alias", 5)
	px, py := 0, 0
	if alias == 1 {
		px = vCfgOr("p", 19)
	}
	if alias == 2 {
		py = vCfgOr("p", 19)
	}
	x := vDec("x", fx, vCfgOr("w", 1), 0, px)
	y := vDec("y", fy, vCfgOr("w", 1), 0, py)
	z := receiver(alias, x, y, vCfgOr("p", 19))
	mode := z.mode
	xn, yn := x.neg, y.neg
	// exact magnitude of the finite operand (captured before the call)
	var fsnap struct {
		S sInt
		e int64
		w int
	}
	if fx == fFinite {
		fsnap.S, fsnap.e, fsnap.w = specMant(x), int64(x.exp)-int64(len(x.mant)*_DW), len(x.mant)
	} else if fy == fFinite {
		fsnap.S, fsnap.e, fsnap.w = specMant(y), int64(y.exp)-int64(len(y.mant)*_DW), len(y.mant)
	}
	k := vCatch(func() {
		switch op {
		case 0:
			z.Add(x, y)
		case 1:
			z.Sub(x, y)
		case 2:
			z.Mul(x, y)
		case 3:
			z.Quo(x, y)
		}
	})
	// IEEE table (DESIGN A.5)
	want := oFinite
	wneg := false
	checkSign := true
	switch op {
	case 0, 1:
		yeff := yn != (op == 1)
		switch {
		case fx == fInf && fy == fInf:
			if xn != yeff {
				want = oPanic
			} else {
				want, wneg = oInf, xn
			}
		case fx == fInf:
			want, wneg = oInf, xn
		case fy == fInf:
			want, wneg = oInf, yeff
		case fx == fZero && fy == fZero:
			want, wneg = oZero, vAnd(xn, yeff)
		case fx == fZero:
			want, wneg = oFinite, yeff
		case fy == fZero:
			want, wneg = oFinite, xn
		default:
			checkSign = false // finite+finite: C01
		}
	case 2:
		wneg = xn != yn
		switch {
		case (fx == fZero && fy == fInf) || (fx == fInf && fy == fZero):
			want = oPanic
		case fx == fInf || fy == fInf:
			want = oInf
		case fx == fZero || fy == fZero:
			want = oZero
		default:
			checkSign = false
		}
	case 3:
		wneg = xn != yn
		switch {
		case (fx == fZero && fy == fZero) || (fx == fInf && fy == fInf):
			want = oPanic
		case fx == fZero || fy == fInf:
			want = oZero
		case fy == fZero || fx == fInf:
			want = oInf
		default:
			checkSign = false
		}
	}
	if want == oPanic {
		vAssert("C04.errnan", k == 1)
	} else {
		vAssert("C04.nopanic", k == 0)
		if checkSign {
			if want == oFinite {
				// a finite operand passes through: the exact result is that operand
				// (with the result's sign), rounded once to the receiver's precision
				f := fsnap
				r := roundRef(f.S, false, f.e, vCfgOr("p", 19), mode, wneg, f.w*_DW, f.w*_DW)
				refMatch("C01.value", "C02.acc", z, r, wneg)
			} else {
				vAssert("C04.form", int(z.form) == want)
				vAssert("C04.sign", z.neg == wneg)
				vAssert("C02.acc", z.acc == Exact)
			}
		}
		_ = mode
	}
	vAssert("C08.inv", invOK(z))
	vReach("end")
}
