//go:build verif

package decimal

import "io"

// C12: parsing of decimal literals is exact-then-rounded; arbitrary input is
// rejected with an error and a nil result, never a panic.

// H_C12_lit: templated base-10 literal  [sign] ni digits [ '.' nf digits ] [ 'e' [esign] ne digits ]
// with every digit symbolic.
func H_C12_lit() {
	sign, ni, nf, ne, esign := vCfgOr("sign", 0), vCfg("ni"), vCfgOr("nf", -1), vCfgOr("ne", 0), vCfgOr("esign", 0)
	p := vCfgOr("p", 0)
	entry := vCfgOr("entry", 0)
	var b []byte
	switch sign {
	case 1:
		b = append(b, '+')
	case 2:
		b = append(b, '-')
	}
	S := sU(0)
	nd := 0
	for i := 0; i < ni; i++ {
		d := byte(vU64(vN("i", i), '0', '9'))
		b = append(b, d)
		S = sAdd(sMulPow10(S, 1), sU(uint64(d-'0')))
		nd++
	}
	if nf >= 0 {
		b = append(b, '.')
		for i := 0; i < nf; i++ {
			d := byte(vU64(vN("f", i), '0', '9'))
			b = append(b, d)
			S = sAdd(sMulPow10(S, 1), sU(uint64(d-'0')))
			nd++
		}
	}
	E := int64(0)
	if ne > 0 {
		if vCfgOr("ecap", 0) == 1 {
			b = append(b, 'E')
		} else {
			b = append(b, 'e')
		}
		switch esign {
		case 1:
			b = append(b, '+')
		case 2:
			b = append(b, '-')
		}
		for i := 0; i < ne; i++ {
			d := byte(vU64(vN("x", i), '0', '9'))
			b = append(b, d)
			E = E*10 + int64(d-'0')
		}
		if esign == 2 {
			E = -E
		}
	}
	s := string(b)
	z := vDec("z", vCfgOr("zf", fZero), 1, vCfgOr("capx", 0), p)
	if p == 0 {
		z.prec = 0
	}
	mode := z.mode
	var d *Decimal
	var base int
	var err error
	ok := true
	k := vCatch(func() {
		switch entry {
		case 0:
			d, base, err = z.Parse(s, vCfgOr("base", 10))
		case 1:
			d, ok = z.SetString(s)
			base = 10
		case 2:
			err = z.UnmarshalText(b)
			d, base = z, 10
		case 3:
			d, base, err = ParseDecimal(s, vCfgOr("base", 10), uint(p), mode)
			if d != nil {
				z = d
			}
		case 4:
			// fmt.Scanner: leading blanks are skipped, the literal is consumed, what follows stays unread
			st := &vScan{b: append(append([]byte{' '}, b...), ' ', 'x')}
			err = z.Scan(st, 'g')
			d, base = z, 10
			if err == nil {
				vAssert("C12.scan.consumed", st.pos == 1+len(b))
			}
		}
	})
	vAssert("C12.nopanic", k == 0)
	if k != 0 {
		return
	}
	pe := p
	if p == 0 {
		pe = DefaultDecimalPrec
	}
	neg := sign == 2
	if nd == 0 {
		vAssert("C12.reject", vAnd(vOr(err != nil, !ok), vOr(d == nil, entry >= 2)))
		return
	}
	if sIsZero(S) {
		vAssert("C12.accept", vAnd(err == nil, ok))
		vAssert("C12.value", vAnd(z.form == zero, z.neg == neg))
		vAssert("C02.acc", z.acc == Exact)
		vAssert("C09.prec", z.prec == uint32(pe))
		vReach("end")
		return
	}
	// decimal exponent of the literal's value: value = 0.d1d2.. x 10^X with X = digits(S) - nf + E
	kd := specDigits(S, 1, nd)
	frac := 0
	if nf > 0 {
		frac = nf
	}
	X := int64(kd) - int64(frac) + E
	if X < MinExp || X > MaxExp {
		vAssert("C12.reject", vAnd(vOr(err != nil, !ok), vOr(d == nil, entry >= 2)))
		vReach("end.range")
		return
	}
	vAssert("C12.accept", vAnd(err == nil, vAnd(ok, vAnd(d == z, base == 10))))
	r := roundRef(S, false, E-int64(frac), pe, mode, neg, kd, kd)
	refMatch("C12.value", "C02.acc", z, r, neg)
	vAssert("C09.prec", z.prec == uint32(pe))
	vAssert("C09.mode", z.mode == mode)
	vAssert("C08.inv", invOK(z))
	vReach("end")
}

// ---- totality / accepted language on arbitrary byte strings

func specDigitVal(c byte) int {
	switch {
	case '0' <= c && c <= '9':
		return int(c - '0')
	case 'a' <= c && c <= 'z':
		return int(c-'a') + 10
	case 'A' <= c && c <= 'Z':
		return int(c-'A') + 10
	}
	return 99
}

// specAccepts is the documented number grammar (DESIGN A.6, the grammar of
// math/big.Float.Parse); it returns whether s is accepted and the detected base.
func specAccepts(b []byte, base int) (bool, int) {
	n := len(b)
	i := 0
	if i < n && (b[i] == '+' || b[i] == '-') {
		i++
	}
	// infinities: exactly [sign] "Inf" | "inf"
	if n-i == 3 && b[i+1] == 'n' && b[i+2] == 'f' && (b[i] == 'I' || b[i] == 'i') {
		return true, 0
	}
	B := base
	afterPrefix := false
	if base == 0 {
		B = 10
		if i+1 < n && b[i] == '0' {
			switch b[i+1] {
			case 'b', 'B':
				B, afterPrefix = 2, true
			case 'o', 'O':
				B, afterPrefix = 8, true
			case 'x', 'X':
				B, afterPrefix = 16, true
			}
			if afterPrefix {
				i += 2
			}
		}
	}
	digits := 0
	sawDot := false
	prevDigit := afterPrefix // '_' may follow the prefix
	prevSep := false
	badSep := false
	for i < n {
		c := b[i]
		if c == '.' && !sawDot {
			if prevSep {
				badSep = true
			}
			sawDot = true
			prevDigit, prevSep = false, false
		} else if c == '_' && base == 0 {
			if !prevDigit {
				badSep = true
			}
			prevDigit, prevSep = false, true
		} else if specDigitVal(c) < B {
			digits++
			prevDigit, prevSep = true, false
		} else {
			break
		}
		i++
	}
	if prevSep {
		badSep = true
	}
	if digits == 0 {
		return false, B
	}
	// exponent
	if i < n && (b[i] == 'e' || b[i] == 'E' || b[i] == 'p' || b[i] == 'P') {
		i++
		if i < n && (b[i] == '+' || b[i] == '-') {
			i++
		}
		ed := 0
		pd, ps := false, false
		for i < n {
			c := b[i]
			if '0' <= c && c <= '9' {
				ed++
				pd, ps = true, false
			} else if c == '_' && base == 0 {
				if !pd {
					badSep = true
				}
				pd, ps = false, true
			} else {
				break
			}
			i++
		}
		if ps {
			badSep = true
		}
		if ed == 0 {
			return false, B
		}
	}
	if badSep || i != n {
		return false, B
	}
	return true, B
}

// H_C12_any: arbitrary byte strings of length L.
func H_C12_any() {
	L, base := vCfg("L"), vCfgOr("base", 0)
	b := make([]byte, L)
	for i := range b {
		b[i] = byte(vU64(vN("b", i), 0, 255))
	}
	if vCfgOr("ascii", 1) == 1 {
		for i := range b {
			vAssume(b[i] < 0x80)
		}
	}
	z := vDec("z", fZero, 1, 0, vCfgOr("p", 5))
	var d *Decimal
	var got int
	var err error
	k := vCatch(func() { d, got, err = z.Parse(string(b), base) })
	vAssert("C12.nopanic", k == 0)
	if k != 0 {
		return
	}
	vAssert("C12.err-nil-result", vImp(err != nil, d == nil))
	want, wb := specAccepts(b, base)
	vAssert("C12.language", (err == nil) == want)
	if err == nil && want && wb != 0 {
		vAssert("C12.base", got == wb)
	}
	if err == nil {
		vAssert("C08.inv", invOK(z))
	}
	vReach("end")
}

// vScan is a minimal fmt.ScanState over a byte slice (for (*Decimal).Scan).
type vScan struct {
	b   []byte
	pos int
}

func (s *vScan) ReadRune() (rune, int, error) {
	if s.pos >= len(s.b) {
		return 0, 0, io.EOF
	}
	c := s.b[s.pos]
	s.pos++
	return rune(c), 1, nil
}
func (s *vScan) UnreadRune() error {
	if s.pos > 0 {
		s.pos--
	}
	return nil
}
func (s *vScan) SkipSpace() {
	for s.pos < len(s.b) && (s.b[s.pos] == ' ' || s.b[s.pos] == '\t' || s.b[s.pos] == '\n') {
		s.pos++
	}
}
func (s *vScan) Token(skip bool, f func(rune) bool) ([]byte, error) { return nil, nil }
func (s *vScan) Width() (int, bool)                                 { return 0, false }
func (s *vScan) Read(p []byte) (int, error)                         { return 0, io.EOF }
