//go:build verif

package decimal

// C01/C02/C08/C09: single-operand rounding: SetPrec, Set, Neg, Abs.

// H_C01_setprec: x (w words, full precision) rounded in place to p digits.
func H_C01_setprec() {
	w, p := vCfg("w"), vCfg("p")
	z := vDec("z", fFinite, w, vCfgOr("capx", 0), 0)
	S := specMant(z)
	e := int64(z.exp) - int64(w*_DW)
	mode, neg := z.mode, z.neg
	oldPrec := z.prec
	_ = oldPrec
	k := vCatch(func() { z.SetPrec(uint(p)) })
	vAssert("C04.nopanic", k == 0)
	r := roundRef(S, false, e, p, mode, neg, w*_DW, w*_DW)
	refMatch("C01.value", "C02.acc", z, r, neg)
	vAssert("C08.inv", invOK(z))
	vAssert("C09.prec", z.prec == uint32(p))
	vAssert("C09.mode", z.mode == mode)
	vReach("end")
}
