//go:build verif

package decimal

// Harness vocabulary. gosym intercepts every v*/s* function below by name and
// never executes these bodies; the bodies are the *native* implementation used
// when a counterexample is replayed against the real build (go test).

import (
	"math/big"
	"strconv"
	"sync"
)

// ---- replay state (native only)

var vReplayCfg = map[string]int64{}
var vReplayVal = map[string]string{}
var vFailures []string
var vAssumeBroken []string
var vReached []string
var vLastPanic interface{}

// Race-mode replay (native only, C18): several goroutines run the same harness
// on SHARED operands (vDec returns one object per name, except the receiver
// "z") under the race detector. vShareOn is false in every symbolic run.
var vShareOn bool
var vShareMu sync.Mutex
var vShareTab = map[string]*Decimal{}

func vSharedDec(name string, frm, w, capx, prec int) *Decimal {
	if name == "z" {
		return vDec0(name, frm, w, capx, prec)
	}
	vShareMu.Lock()
	defer vShareMu.Unlock()
	if x, ok := vShareTab[name]; ok {
		return x
	}
	x := vDec0(name, frm, w, capx, prec)
	vShareTab[name] = x
	return x
}

func vLocked(f func()) {
	if vShareOn {
		vShareMu.Lock()
		defer vShareMu.Unlock()
	}
	f()
}

type vStop struct{}

func vLookup(name string) (*big.Int, bool) {
	s, ok := vReplayVal[name]
	if !ok {
		return nil, false
	}
	v, ok := new(big.Int).SetString(s, 10)
	return v, ok
}

func vCfg(name string) int {
	v, ok := vReplayCfg[name]
	if !ok {
		panic("vCfg: missing key " + name)
	}
	return int(v)
}

func vCfgOr(name string, def int) int {
	v, ok := vReplayCfg[name]
	if !ok {
		return def
	}
	return int(v)
}

func vU64(name string, lo, hi uint64) uint64 {
	v, ok := vLookup(name)
	if !ok {
		return lo
	}
	if !v.IsUint64() || v.Uint64() < lo || v.Uint64() > hi {
		vLocked(func() { vAssumeBroken = append(vAssumeBroken, "range of "+name) })
		panic(vStop{})
	}
	return v.Uint64()
}

func vI64(name string, lo, hi int64) int64 {
	v, ok := vLookup(name)
	if !ok {
		return lo
	}
	if !v.IsInt64() || v.Int64() < lo || v.Int64() > hi {
		vLocked(func() { vAssumeBroken = append(vAssumeBroken, "range of "+name) })
		panic(vStop{})
	}
	return v.Int64()
}

func vBool(name string) bool {
	v, ok := vLookup(name)
	return ok && v.Sign() != 0
}

func vN(prefix string, i int) string { return prefix + strconv.Itoa(i) }

func vAssume(c bool) {
	if !c {
		vLocked(func() { vAssumeBroken = append(vAssumeBroken, "vAssume") })
		panic(vStop{})
	}
}

func vAssert(id string, c bool) {
	if !c {
		vLocked(func() { vFailures = append(vFailures, id) })
	}
}

func vReach(id string)       { vLocked(func() { vReached = append(vReached, id) }) }
func vConcI(x int64) int64   { return x }
func vConcU(x uint64) uint64 { return x }
func vIsConc(x int64) bool   { return true }
func vAnd(a, b bool) bool    { return a && b }
func vOr(a, b bool) bool     { return a || b }
func vImp(a, b bool) bool    { return !a || b }
func vNote(s string)         {}
func vSamePtr(a, b []Word) bool {
	return cap(a) > 0 && cap(b) > 0 && &a[:cap(a)][cap(a)-1] == &b[:cap(b)][cap(b)-1]
}
func vIteU(c bool, a, b uint64) uint64 {
	if c {
		return a
	}
	return b
}
func vIteI(c bool, a, b int64) int64 {
	if c {
		return a
	}
	return b
}

// vCatch runs f and classifies its outcome: 0 no panic, 1 panic with an ErrNaN
// value, 2 any other panic.
func vCatch(f func()) (kind int) {
	defer func() {
		if r := recover(); r != nil {
			if _, stop := r.(vStop); stop {
				panic(r)
			}
			vLocked(func() { vLastPanic = r })
			if _, ok := r.(ErrNaN); ok {
				kind = 1
			} else {
				kind = 2
			}
		}
	}()
	f()
	return 0
}

// ---- specification integers (unbounded)

type sInt = *big.Int

func sU(x uint64) sInt             { return new(big.Int).SetUint64(x) }
func sI(x int64) sInt              { return big.NewInt(x) }
func sAdd(a, b sInt) sInt          { return new(big.Int).Add(a, b) }
func sSub(a, b sInt) sInt          { return new(big.Int).Sub(a, b) }
func sMul(a, b sInt) sInt          { return new(big.Int).Mul(a, b) }
func sNeg(a sInt) sInt             { return new(big.Int).Neg(a) }
func sPow10(k int) sInt            { return new(big.Int).Exp(big.NewInt(10), big.NewInt(int64(k)), nil) }
func sMulPow10(a sInt, k int) sInt { return new(big.Int).Mul(a, sPow10(k)) }
func sMulPow2(a sInt, k int) sInt  { return new(big.Int).Lsh(a, uint(k)) }
func sDivPow10(a sInt, k int) sInt {
	q, _ := new(big.Int).DivMod(a, sPow10(k), new(big.Int))
	return q
}
func sModPow10(a sInt, k int) sInt { return new(big.Int).Mod(a, sPow10(k)) }
func sDiv(a, b sInt) sInt {
	q, _ := new(big.Int).DivMod(a, b, new(big.Int))
	return q
}
func sMod(a, b sInt) sInt { return new(big.Int).Mod(a, b) }
func sEq(a, b sInt) bool  { return a.Cmp(b) == 0 }
func sLt(a, b sInt) bool  { return a.Cmp(b) < 0 }
func sLe(a, b sInt) bool  { return a.Cmp(b) <= 0 }
func sIsZero(a sInt) bool { return a.Sign() == 0 }
func sOdd(a sInt) bool    { return a.Bit(0) == 1 }
func sIte(c bool, a, b sInt) sInt {
	if c {
		return a
	}
	return b
}
func sFromWords(w []Word) sInt {
	r := new(big.Int)
	for i := len(w) - 1; i >= 0; i-- {
		r.Mul(r, sPow10(_DW))
		r.Add(r, new(big.Int).SetUint64(uint64(w[i])))
	}
	return r
}
func sFromBinWords(w []big.Word) sInt {
	r := new(big.Int)
	for i := len(w) - 1; i >= 0; i-- {
		r.Lsh(r, _W)
		r.Add(r, new(big.Int).SetUint64(uint64(w[i])))
	}
	return r
}
func sFromBytesBE(b []byte) sInt { return new(big.Int).SetBytes(b) }

// vWitness asks whether c can hold here (vacuity / separation witness); native: no-op.
func vWitness(id string, c bool) {}

// vKnown registers the input predicate of a known finding (known_findings.json).
func vKnown(id string, c bool) {}

// vDump prints a term (development aid); native: no-op.
func vDump(name string, x uint64) {}

// vConfineBegin / vConfineEnd bracket the operation whose stores are checked in
// confinement mode (C18): z is the receiver, ops the shared operands. Native: no-ops.
func vConfineBegin(z *Decimal, ops []*Decimal) {}
func vConfineEnd(z *Decimal)                   {}

// specByte converts a specification integer in [0, 255] to a byte.
func specByte(a sInt) byte { return byte(a.Uint64()) }
