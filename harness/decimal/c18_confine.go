//go:build verif

package decimal

import "math/big"

// C18: operands are only read, package-level state is never written, pool
// buffers are used correctly - for every operation of the statement.

func H_C18_op() {
	op := vCfg("op")
	wx, wy := vCfgOr("wx", 1), vCfgOr("wy", 1)
	setThresholds()
	x := vDec("x", vCfgOr("fx", fFinite), wx, vCfgOr("capx", 1), 0)
	y := vDec("y", vCfgOr("fy", fFinite), wy, vCfgOr("capx", 1), 0)
	u := vDec("u", fFinite, 1, 0, 0)
	if op == 1 || op == 0 {
		// alignment for Add/Sub
		ye := int64(x.exp) - int64(wx*_DW) - int64(vCfgOr("d", 0)) + int64(wy*_DW)
		vAssume(vAnd(ye >= MinExp, ye <= MaxExp))
		y.exp = int32(ye)
	}
	if op == 5 {
		// FMA: u aligned with the low end of the product
		ue := int64(x.exp) - int64(wx*_DW) + int64(y.exp) - int64(wy*_DW) + _DW
		vAssume(vAnd(ue >= MinExp, ue <= MaxExp))
		u.exp = int32(ue)
	}
	if op == 7 || op == 11 {
		// conversions allocate in proportion to the exponent: keep it small
		vAssume(vAnd(x.exp >= -5, x.exp <= 45))
	}
	z := vDec("z", vCfgOr("zf", fZero), 1, vCfgOr("zcap", 0), vCfgOr("p", 19))
	xs, ys, us := snap(x), snap(y), snap(u)
	var bi big.Int
	vConfineBegin(z, []*Decimal{x, y, u, oneHalf, three})
	k := vCatch(func() {
		switch op {
		case 0:
			z.Add(x, y)
		case 1:
			z.Sub(x, y)
		case 2:
			z.Mul(x, y)
		case 3:
			z.Quo(x, y)
		case 4:
			z.Mul(x, x)
		case 5:
			z.FMA(x, y, u)
		case 6:
			_ = x.Cmp(y)
		case 7:
			_, _ = x.Int64()
			_, _ = x.Uint64()
			_, _ = x.Int(&bi)
			_ = x.IsInt()
			_ = x.MinPrec()
		case 8:
			_, _ = x.GobEncode()
		case 9:
			z.Sqrt(x)
		case 10:
			z.Set(x)
			z.Neg(x)
			z.Abs(x)
			z.SetMantExp(x, 3)
			_ = x.MantExp(z)
			z.Copy(x)
		case 11:
			_ = x.Append(nil, 'e', -1)
		}
	})
	vConfineEnd(z)
	vAssert("C04.nopanic", vOr(k == 0, vAnd(op == 9, k == 1)))
	vAssert("C18.operand.x", unchanged(x, xs))
	vAssert("C18.operand.y", unchanged(y, ys))
	vAssert("C18.operand.u", unchanged(u, us))
	vReach("end")
}

// H_C18_sqrtreal: the real Sqrt - float64 seed and Newton iteration of
// sqrtInverse included - in confinement mode. The operand is concrete (the
// iteration starts from math.Sqrt of a float64, which the executor only
// interprets concretely); what is explored symbolically is every answer of the
// pool. Every store of the whole iteration is checked against the ownership
// tags: the shared constants oneHalf and three and the operand are read-only.
func H_C18_sqrtreal() {
	p := vCfg("p")
	x := new(Decimal).SetPrec(uint(vCfgOr("px", 19))).SetUint64(uint64(vCfg("v")))
	x.SetMantExp(x, vCfgOr("e", 0))
	z := new(Decimal).SetPrec(uint(p))
	xs, hs, ts := snap(x), snap(oneHalf), snap(three)
	vConfineBegin(z, []*Decimal{x, oneHalf, three})
	k := vCatch(func() { z.Sqrt(x) })
	vConfineEnd(z)
	vAssert("C04.nopanic", k == 0)
	vAssert("C18.operand.x", unchanged(x, xs))
	vAssert("C18.global.oneHalf", unchanged(oneHalf, hs))
	vAssert("C18.global.three", unchanged(three, ts))
	vAssert("C18.sqrt.attrs", vAnd(z.Prec() == uint(p), z.form == finite))
	vReach("end")
}
