//go:build verif

package decimal

import (
	"math"
	"math/big"
)

// H_C04_setfloat: SetFloat64 / SetFloat on the special values of the binary
// formats and on two finite values, from an ARBITRARY previous receiver state
// (form, sign, stale words symbolic). The binary operand is concrete (the
// executor interprets float64 and big.Float code concretely; the numeric
// closeness of the conversion is C15's business and is not claimed): decided
// here are C04 (+-0 and +-Inf map to themselves, NaN panics with ErrNaN and
// nothing else panics, receiver valid afterwards) and C10 (the outcome does not
// depend on what the receiver held before).
func H_C04_setfloat() {
	cls, which, p := vCfg("cls"), vCfg("which"), vCfgOr("p", 7)
	var f float64
	switch cls {
	case 0:
		f = 0
	case 1:
		f = math.Copysign(0, -1)
	case 2:
		f = math.Inf(1)
	case 3:
		f = math.Inf(-1)
	case 4:
		f = 1.5
	case 5:
		f = -0.1
	case 6:
		f = math.NaN()
	}
	set := func(z *Decimal) {
		if which == 0 {
			z.SetFloat64(f)
			return
		}
		var b *big.Float
		switch cls {
		case 2:
			b = new(big.Float).SetInf(false)
		case 3:
			b = new(big.Float).SetInf(true)
		default:
			b = new(big.Float).SetFloat64(f)
		}
		z.SetFloat(b)
	}
	z := vDec("z", vCfg("zf"), 1, vCfgOr("capx", 1), p)
	mode := z.mode
	ref := new(Decimal).SetPrec(uint(p)).SetMode(mode)
	k := vCatch(func() { set(z) })
	kr := vCatch(func() { set(ref) })
	if cls == 6 {
		vAssert("C04.errnan", vAnd(k == 1, kr == 1))
		vAssert("C08.inv", invOK(z))
		vReach("end")
		return
	}
	vAssert("C04.nopanic", vAnd(k == 0, kr == 0))
	if k != 0 || kr != 0 {
		return
	}
	neg := math.Signbit(f)
	switch {
	case cls <= 1:
		vAssert("C04.special", vAnd(z.form == zero, z.neg == neg))
	case cls <= 3:
		vAssert("C04.special", vAnd(z.form == inf, z.neg == neg))
	default:
		vAssert("C04.special", vAnd(z.form == finite, z.neg == neg))
	}
	vAssert("C08.inv", invOK(z))
	vAssert("C09.prec", z.prec == uint32(p))
	vAssert("C09.mode", z.mode == mode)
	// independent of the receiver's previous contents
	same := vAnd(z.form == ref.form, vAnd(z.neg == ref.neg, z.acc == ref.acc))
	if z.form == finite && ref.form == finite {
		same = vAnd(same, vAnd(z.exp == ref.exp, len(z.mant) == len(ref.mant)))
		if len(z.mant) == len(ref.mant) {
			same = vAnd(same, sEq(sFromWords(z.mant), sFromWords(ref.mant)))
		}
	}
	vAssert("C10.same", same)
	vReach("end")
}

// H_C04_tofloat: Float64 / Float32 / Float of zeros and infinities (either
// sign, any stale state): the value is the same special value with the same
// sign, accuracy Exact, x unchanged. (The finite case is C15's numeric
// statement and is not claimed.)
func H_C04_tofloat() {
	fx, which := vCfg("fx"), vCfg("which")
	x := vDec("x", fx, 1, vCfgOr("capx", 1), vCfgOr("px", 0))
	xs := snap(x)
	var f float64
	var acc Accuracy
	var isInf, sign bool
	k := vCatch(func() {
		switch which {
		case 0:
			f, acc = x.Float64()
			isInf, sign = math.IsInf(f, 0), math.Signbit(f)
		case 1:
			var g float32
			g, acc = x.Float32()
			f = float64(g)
			isInf, sign = math.IsInf(f, 0), math.Signbit(f)
		case 2:
			b := x.Float(nil)
			isInf, sign = b.IsInf(), b.Signbit()
			acc = Accuracy(b.Acc())
			if !isInf {
				f, _ = b.Float64()
			}
		}
	})
	vAssert("C04.nopanic", k == 0)
	if k != 0 {
		return
	}
	vAssert("C04.special", vAnd(sign == x.neg, vAnd(isInf == (fx == fInf), vOr(isInf, f == 0))))
	vAssert("C02.acc", acc == Exact)
	vAssert("C09.operand", unchanged(x, xs))
	vReach("end")
}
