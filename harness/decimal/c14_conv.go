//go:build verif

package decimal

import "math/big"

// C14/C02/C09: integer conversions.

// H_C14_setint64: SetInt64 / SetUint64 / NewDecimal.
func H_C14_setint64() {
	which := vCfg("which") // 0 SetInt64, 1 SetUint64, 2 NewDecimal
	p := vCfg("p")        // 0: precision-0 receiver (becomes 34)
	z := vDec("z", vCfgOr("zf", fZero), 1, vCfgOr("capx", 0), p)
	if p == 0 {
		z.prec = 0
	}
	mode := z.mode
	var S sInt
	neg := false
	var e int64
	var k int
	switch which {
	case 0:
		x := vI64("x", -1<<63, 1<<63-1)
		neg = x < 0
		S = sIte(neg, sNeg(sI(x)), sI(x))
		k = vCatch(func() { z.SetInt64(x) })
	case 1:
		x := vU64("x", 0, ^uint64(0))
		S = sU(x)
		k = vCatch(func() { z.SetUint64(x) })
	case 2:
		x := vI64("x", -1<<63, 1<<63-1)
		ex := int(vI64("e", -1<<63, 1<<63-1))
		vAssume(vAnd(ex > -1<<40, ex < 1<<40)) // keep the reference's int64 exponent arithmetic exact
		neg = x < 0
		S = sIte(neg, sNeg(sI(x)), sI(x))
		e = int64(ex)
		mode = ToNearestEven
		k = vCatch(func() { z = NewDecimal(x, ex) })
	}
	vAssert("C04.nopanic", k == 0)
	pe := p
	if p == 0 || which == 2 {
		pe = DefaultDecimalPrec
	}
	if sIsZero(S) {
		vAssert("C14.value", vAnd(z.form == zero, z.neg == neg))
		vAssert("C02.acc", z.acc == Exact)
	} else {
		r := roundRef(S, false, e, pe, mode, neg, 1, 20)
		refMatch("C14.value", "C02.acc", z, r, neg)
	}
	vAssert("C09.prec", z.prec == uint32(pe))
	vAssert("C09.mode", z.mode == mode)
	vAssert("C08.inv", invOK(z))
	vReach("end")
}

// vBigInt returns a *big.Int with n (normalised) binary words and symbolic sign.
func vBigInt(name string, n int) *big.Int {
	ws := make([]big.Word, n)
	for i := 0; i < n; i++ {
		lo := uint64(0)
		if i == n-1 {
			lo = 1
		}
		ws[i] = big.Word(vU64(vN(name+".w", i), lo, ^uint64(0)))
	}
	x := new(big.Int).SetBits(ws)
	if n > 0 && vBool(name+".neg") {
		x.Neg(x)
	}
	return x
}

// H_C14_setint: SetInt of a big.Int with n binary words.
func H_C14_setint() {
	n, p := vCfg("n"), vCfg("p")
	x := vBigInt("x", n)
	S := sFromBinWords(x.Bits())
	neg := x.Sign() < 0
	z := vDec("z", vCfgOr("zf", fZero), 1, vCfgOr("capx", 0), p)
	if p == 0 {
		z.prec = 0
	}
	mode := z.mode
	k := vCatch(func() { z.SetInt(x) })
	vAssert("C04.nopanic", k == 0)
	if n == 0 {
		vAssert("C14.value", vAnd(z.form == zero, !z.neg))
		vAssert("C02.acc", z.acc == Exact)
		if p == 0 {
			vAssert("C09.prec", z.prec == DefaultDecimalPrec)
		} else {
			vAssert("C09.prec", z.prec == uint32(p))
		}
	} else {
		maxd := (64*n*30103)/100000 + 1
		if p == 0 {
			// precision becomes max(number of digits, 34): the value is stored exactly
			kd := specDigits(S, 1, maxd)
			pe := kd
			if pe < DefaultDecimalPrec {
				pe = DefaultDecimalPrec
			}
			vAssert("C09.prec", z.prec == uint32(pe))
			r := roundRef(S, false, 0, pe, mode, neg, kd, kd)
			refMatch("C14.value", "C02.acc", z, r, neg)
		} else {
			vAssert("C09.prec", z.prec == uint32(p))
			r := roundRef(S, false, 0, p, mode, neg, 1, maxd)
			refMatch("C14.value", "C02.acc", z, r, neg)
		}
	}
	vAssert("C09.mode", z.mode == mode)
	vAssert("C08.inv", invOK(z))
	vReach("end")
}
