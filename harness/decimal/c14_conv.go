//go:build verif

package decimal

import "math/big"

// C14/C02/C09: integer conversions.

// H_C14_setint64: SetInt64 / SetUint64 / NewDecimal.
func H_C14_setint64() {
	which := vCfg("which") // 0 SetInt64, 1 SetUint64, 2 NewDecimal
	p := vCfg("p")        // 0: precision-0 receiver (becomes 34)
	z := vDec("z", vCfgOr("zf", fZero), 1, vCfgOr("capx", 0), p)
	if p == 0 {
		z.prec = 0
	}
	mode := z.mode
	var S sInt
	neg := false
	var e int64
	var k int
	switch which {
	case 0:
		x := vI64("x", -1<<63, 1<<63-1)
		neg = x < 0
		S = sIte(neg, sNeg(sI(x)), sI(x))
		k = vCatch(func() { z.SetInt64(x) })
	case 1:
		x := vU64("x", 0, ^uint64(0))
		S = sU(x)
		k = vCatch(func() { z.SetUint64(x) })
	case 2:
		x := vI64("x", -1<<63, 1<<63-1)
		ex := int(vI64("e", -1<<63, 1<<63-1))
		vAssume(vAnd(ex > -1<<40, ex < 1<<40)) // keep the reference's int64 exponent arithmetic exact
		neg = x < 0
		S = sIte(neg, sNeg(sI(x)), sI(x))
		e = int64(ex)
		mode = ToNearestEven
		k = vCatch(func() { z = NewDecimal(x, ex) })
	}
	vAssert("C04.nopanic", k == 0)
	pe := p
	if p == 0 || which == 2 {
		pe = DefaultDecimalPrec
	}
	if sIsZero(S) {
		vAssert("C14.value", vAnd(z.form == zero, z.neg == neg))
		vAssert("C02.acc", z.acc == Exact)
	} else {
		r := roundRef(S, false, e, pe, mode, neg, 1, 20)
		refMatch("C14.value", "C02.acc", z, r, neg)
	}
	vAssert("C09.prec", z.prec == uint32(pe))
	vAssert("C09.mode", z.mode == mode)
	vAssert("C08.inv", invOK(z))
	vReach("end")
}

// vBigInt returns a *big.Int with n (normalised) binary words and symbolic sign.
func vBigInt(name string, n int) *big.Int {
	ws := make([]big.Word, n)
	for i := 0; i < n; i++ {
		lo := uint64(0)
		if i == n-1 {
			lo = 1
		}
		ws[i] = big.Word(vU64(vN(name+".w", i), lo, ^uint64(0)))
	}
	x := new(big.Int).SetBits(ws)
	if n > 0 && vBool(name+".neg") {
		x.Neg(x)
	}
	return x
}

// H_C14_setint: SetInt of a big.Int with n binary words.
func H_C14_setint() {
	n, p := vCfg("n"), vCfg("p")
	x := vBigInt("x", n)
	S := sFromBinWords(x.Bits())
	neg := x.Sign() < 0
	z := vDec("z", vCfgOr("zf", fZero), 1, vCfgOr("capx", 0), p)
	if p == 0 {
		z.prec = 0
	}
	mode := z.mode
	k := vCatch(func() { z.SetInt(x) })
	vAssert("C04.nopanic", k == 0)
	if n == 0 {
		vAssert("C14.value", vAnd(z.form == zero, !z.neg))
		vAssert("C02.acc", z.acc == Exact)
		if p == 0 {
			vAssert("C09.prec", z.prec == DefaultDecimalPrec)
		} else {
			vAssert("C09.prec", z.prec == uint32(p))
		}
	} else {
		maxd := (64*n*30103)/100000 + 1
		if p == 0 {
			// precision becomes max(number of digits, 34): the value is stored exactly
			kd := specDigits(S, 1, maxd)
			pe := kd
			if pe < DefaultDecimalPrec {
				pe = DefaultDecimalPrec
			}
			vAssert("C09.prec", z.prec == uint32(pe))
			r := roundRef(S, false, 0, pe, mode, neg, kd, kd)
			refMatch("C14.value", "C02.acc", z, r, neg)
		} else {
			vAssert("C09.prec", z.prec == uint32(p))
			r := roundRef(S, false, 0, p, mode, neg, 1, maxd)
			refMatch("C14.value", "C02.acc", z, r, neg)
		}
	}
	vAssert("C09.mode", z.mode == mode)
	vAssert("C08.inv", invOK(z))
	vReach("end")
}

// H_C14_rat: Rat returns exactly x (numerator/denominator compared by
// cross-multiplication; big.Rat's gcd reduction is modelled as the identity,
// which leaves the value unchanged), with accuracy Exact; zero gives 0/1,
// infinities give nil and the sign as accuracy. x is left unchanged.
func H_C14_rat() {
	fx := vCfgOr("fx", fFinite)
	w := vCfgOr("w", 1)
	x := vDec("x", fx, w, 0, 0)
	xs := snap(x)
	if fx == fFinite {
		vAssume(int(x.exp) == vCfg("e"))
	}
	var z *big.Rat
	if vCfgOr("dirty", 0) == 1 {
		// a receiver that held another fraction before
		z = new(big.Rat).SetFrac64(int64(vI64("z.num", -1000, 1000)), 7)
	}
	var r *big.Rat
	var acc Accuracy
	k := vCatch(func() { r, acc = x.Rat(z) })
	vAssert("C04.nopanic", k == 0)
	vAssert("C09.operand", unchanged(x, xs))
	if k != 0 {
		return
	}
	switch fx {
	case fZero:
		vAssert("C14.rat", vAnd(r != nil, acc == Exact))
		if r != nil {
			vAssert("C14.rat.zero", r.Num().Sign() == 0)
		}
	case fInf:
		vAssert("C14.rat", vAnd(r == nil, acc == makeAcc(x.neg)))
	default:
		vAssert("C14.rat", vAnd(r != nil, acc == Exact))
		if r == nil {
			return
		}
		num, den := r.Num(), r.Denom()
		N, D := sFromBinWords(num.Bits()), sFromBinWords(den.Bits())
		M := specMant(x)
		e := vCfg("e") - w*_DW
		var ok bool
		if e >= 0 {
			ok = sEq(N, sMul(sMulPow10(M, e), D))
		} else {
			ok = sEq(sMulPow10(N, -e), sMul(M, D))
		}
		vAssert("C14.rat.value", vAnd(ok, vAnd(!sIsZero(D), den.Sign() > 0)))
		vAssert("C14.rat.sign", (num.Sign() < 0) == x.neg)
	}
	vReach("end")
}

// H_C14_setrat: SetRat(a/b) == a/b rounded once (precision p; or exactly, at
// the precision SetRat chooses, when p is 0 and the quotient terminates),
// for fractions with da-digit numerators and db-digit denominators.
func H_C14_setrat() {
	p, da, db := vCfg("p"), vCfg("da"), vCfg("db")
	lo := func(d int) uint64 { return pow10tab[d-1] }
	hi := func(d int) uint64 { return pow10tab[d-1]*9 + (pow10tab[d-1] - 1) }
	a := vU64("a", lo(da), hi(da))
	b := vU64("b", lo(db), hi(db))
	neg := vBool("neg")
	q := new(big.Rat).SetFrac(new(big.Int).SetUint64(a), new(big.Int).SetUint64(b))
	if neg {
		q.Neg(q)
	}
	z := vDec("z", vCfgOr("zf", fZero), 1, 0, maxInt(p, 1))
	if p == 0 {
		z.prec = 0
	}
	mode := z.mode
	k := vCatch(func() { z.SetRat(q) })
	vAssert("C04.nopanic", k == 0)
	if k != 0 {
		return
	}
	vAssert("C08.inv", invOK(z))
	vAssert("C09.mode", z.mode == mode)
	if p == 0 {
		// precision chosen by SetRat; the value must still be a/b rounded once to it
		p = int(vConcI(int64(z.prec)))
		vAssert("C14.setrat.prec", p >= 1)
		if p < 1 {
			return
		}
	} else {
		vAssert("C09.prec", z.prec == uint32(p))
	}
	// a/b scaled so that the integer quotient has at least p+1 digits
	sh := p + 1 + db - da + 1
	if sh < 0 {
		sh = 0
	}
	A := sMulPow10(sU(a), sh)
	B := sU(b)
	Q, R := sDiv(A, B), sMod(A, B)
	r := roundRef(Q, !sIsZero(R), int64(-sh), p, mode, neg, 1, da+sh)
	refMatch("C14.value", "C02.acc", z, r, neg)
	vReach("end")
}
