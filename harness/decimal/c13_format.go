//go:build verif

package decimal

// C13: Append/Text with an explicit precision print x rounded once (under
// x's own mode) at the requested digit position, laid out as strconv does.

// roundAt returns round(S / 10^t) under mode for a value of sign neg (t >= 0;
// the position may lie above the leading digit of S, then the result is 0 or 1).
func roundAt(S sInt, t int, mode RoundingMode, neg bool) sInt {
	if t == 0 {
		return S
	}
	q := sDivPow10(S, t)
	rem := sModPow10(S, t)
	half := sMulPow10(sU(5), t-1)
	lost := !sIsZero(rem)
	gt := sLt(half, rem)
	tie := sEq(rem, half)
	odd := sOdd(sModPow10(q, 1))
	inc := vAnd(lost, specInc(mode, neg, gt, tie, odd))
	return sAdd(q, sIte(inc, sU(1), sU(0)))
}

// digitsOf appends the n decimal digits of N (most significant first, zero padded).
func digitsOf(out []byte, N sInt, n int) []byte {
	for i := n - 1; i >= 0; i-- {
		d := sModPow10(sDivPow10(N, i), 1)
		out = append(out, '0'+specByte(d))
	}
	return out
}

func sameBytes(a, b []byte) bool {
	if len(a) != len(b) {
		return false
	}
	ok := true
	for i := range a {
		ok = vAnd(ok, a[i] == b[i])
	}
	return ok
}

func H_C13_fmt() {
	w, P := vCfgOr("w", 1), vCfg("P")
	f := byte(vCfg("fmt"))
	x := vDec("x", fFinite, w, 0, 0)
	vAssume(vAnd(int(x.exp) >= vCfg("elo"), int(x.exp) <= vCfg("ehi")))
	xs := snap(x)
	var got []byte
	k := vCatch(func() { got = x.Append(make([]byte, 0, 160), f, P) })
	vAssert("C13.nopanic", k == 0)
	if k != 0 {
		return
	}
	vAssert("C09.operand", unchanged(x, xs))
	M := specMant(x)
	nd := w * _DW
	var want []byte
	if x.neg {
		want = append(want, '-')
	}
	switch f {
	case 'e', 'E':
		// P+1 significant digits
		r := roundRef(M, false, 0, P+1, x.mode, x.neg, nd, nd) // exponent relative: E = nd (+1 on carry)
		X := int64(x.exp) + (r.exp - int64(nd))
		want = digitsOf(want, sDivPow10(r.M, P), 1)
		if P > 0 {
			want = append(want, '.')
			want = digitsOf(want, sModPow10(r.M, P), P)
		}
		want = append(want, f)
		e := X - 1
		if e < 0 {
			want = append(want, '-')
			e = -e
		} else {
			want = append(want, '+')
		}
		ec := int(vConcI(e))
		ne := 2
		for t := 100; ec >= t; t *= 10 {
			ne++
		}
		want = digitsOf(want, sI(int64(ec)), ne)
	case 'f':
		// value * 10^P rounded to an integer N
		ex := int(vConcI(int64(x.exp)))
		t := nd - ex - P
		var N sInt
		if t <= 0 {
			N = sMulPow10(M, -t)
		} else {
			N = roundAt(M, t, x.mode, x.neg)
		}
		ip := sDivPow10(N, P)
		ni := 1
		if !sIsZero(ip) {
			ni = specDigits(ip, 1, maxInt(ex, 0)+1)
		}
		want = digitsOf(want, ip, ni)
		if P > 0 {
			want = append(want, '.')
			want = digitsOf(want, sModPow10(N, P), P)
		}
	case 'g', 'G':
		// strconv's %g: round to P significant digits (0 means 1), drop trailing zeros (nd digits are
		// left), then %e with nd-1 decimals if the exponent is < -4 or >= eprec, else %f with
		// max(nd-X, 0) decimals; eprec = P, except eprec = nd when P > nd >= X.
		PP := P
		if PP == 0 {
			PP = 1
		}
		r := roundRef(M, false, 0, PP, x.mode, x.neg, nd, nd)
		X := int(vConcI(int64(x.exp) + (r.exp - int64(nd))))
		tz := int64(0)
		for j := 1; j <= PP-1; j++ {
			tz = vIteI(sIsZero(sModPow10(r.M, j)), int64(j), tz)
		}
		nz := int(vConcI(tz))
		ndg := PP - nz
		D := sDivPow10(r.M, nz)
		eprec := PP
		if eprec > ndg && ndg >= X {
			eprec = ndg
		}
		if e := X - 1; e < -4 || e >= eprec {
			want = digitsOf(want, sDivPow10(D, ndg-1), 1)
			if ndg > 1 {
				want = append(want, '.')
				want = digitsOf(want, sModPow10(D, ndg-1), ndg-1)
			}
			want = append(want, f+'e'-'g')
			if e < 0 {
				want = append(want, '-')
				e = -e
			} else {
				want = append(want, '+')
			}
			ne := 2
			for t := 100; e >= t; t *= 10 {
				ne++
			}
			want = digitsOf(want, sI(int64(e)), ne)
		} else if X <= 0 {
			want = append(want, '0', '.')
			for i := 0; i < -X; i++ {
				want = append(want, '0')
			}
			want = digitsOf(want, D, ndg)
		} else if X >= ndg {
			want = digitsOf(want, D, ndg)
			for i := 0; i < X-ndg; i++ {
				want = append(want, '0')
			}
		} else {
			want = digitsOf(want, sDivPow10(D, ndg-X), X)
			want = append(want, '.')
			want = digitsOf(want, sModPow10(D, ndg-X), ndg-X)
		}
	}
	vAssert("C13.layout", sameBytes(got, want))
	vReach("end")
}

// H_C13_zero: the text of a zero does not depend on the exponent (or mantissa
// buffer) left over from a previous finite value.
func H_C13_zero() {
	f := byte(vCfg("fmt"))
	P := vCfgOr("P", -1)
	x := vDec("x", fZero, 1, vCfgOr("capx", 2), 0)
	ref := new(Decimal)
	ref.neg = x.neg
	var got, want []byte
	k := vCatch(func() {
		got = x.Append(make([]byte, 0, 64), f, P)
		want = ref.Append(make([]byte, 0, 64), f, P)
	})
	vAssert("C13.nopanic", k == 0)
	vAssert("C13.zero", sameBytes(got, want))
	vReach("end")
}

// vState is a fmt.State whose flags, width and precision are harness inputs.
type vState struct {
	buf                       []byte
	wid, prec                 int
	hasWid, hasPrec           bool
	plus, minus, space, zero_ bool
}

func (s *vState) Write(b []byte) (int, error) { s.buf = append(s.buf, b...); return len(b), nil }
func (s *vState) Width() (int, bool)          { return s.wid, s.hasWid }
func (s *vState) Precision() (int, bool)      { return s.prec, s.hasPrec }
func (s *vState) Flag(c int) bool {
	switch c {
	case '+':
		return s.plus
	case '-':
		return s.minus
	case ' ':
		return s.space
	case '0':
		return s.zero_
	}
	return false
}

// fmtPad is fmt's (*fmt).pad: width padding on the left (zeros if the zero
// flag is in force, else spaces) or, with '-', spaces on the right.
func fmtPad(out, b []byte, wid int, hasWid, minus, zero bool) []byte {
	n := 0
	if hasWid && wid > len(b) {
		n = wid - len(b)
	}
	if !minus {
		for i := 0; i < n; i++ {
			if zero {
				out = append(out, '0')
			} else {
				out = append(out, ' ')
			}
		}
		return append(out, b...)
	}
	out = append(out, b...)
	for i := 0; i < n; i++ {
		out = append(out, ' ')
	}
	return out
}

// H_C13_format: (*Decimal).Format behind the fmt verbs, for every combination
// of the '+', '-', ' ' and '0' flags that fmt can pass (fmt clears '0' when '-'
// is present), every width 0..wmax or none, with and without a precision:
// output == fmt's float layout (fmt/format.go fmtFloat: sign selection, zero
// padding between sign and digits, no zero padding of infinities) around the
// digits Append produces for the verb's strconv format and default precision.
func H_C13_format() {
	verb := rune(vCfg("verb"))
	var x *Decimal
	if v := vCfgOr("v", 0); v != 0 {
		// concrete magnitude (the digits are H_C13_fmt's business), symbolic sign and mode
		x = new(Decimal).SetPrec(19).SetUint64(uint64(v))
		x.SetMantExp(x, vCfgOr("e", 0))
		x.neg = vBool("x.neg")
		x.mode = RoundingMode(vI64("x.mode", 0, 5))
	} else {
		x = vDec("x", vCfg("fx"), 1, 0, 0)
		if x.form == finite {
			vAssume(vAnd(int(x.exp) >= vCfgOr("elo", 0), int(x.exp) <= vCfgOr("ehi", 1)))
		}
	}
	st := &vState{prec: vCfgOr("P", 2), hasPrec: vBool("st.hasPrec"), hasWid: vBool("st.hasWid"),
		plus: vBool("st.plus"), minus: vBool("st.minus"), space: vBool("st.space"), zero_: vBool("st.zero")}
	st.wid = int(vConcI(vI64("st.wid", 0, int64(vCfgOr("wmax", 12)))))
	vAssume(!vAnd(st.minus, st.zero_))
	if vCfgOr("noprec", 0) == 1 {
		vAssume(!st.hasPrec)
	}
	k := vCatch(func() { x.Format(st, verb) })
	vAssert("C13.nopanic", k == 0)
	if k != 0 {
		return
	}
	// the digits: strconv format and default precision of the verb
	f, P := byte(verb), 6
	switch verb {
	case 'F':
		f = 'f'
	case 'v':
		f, P = 'g', -1
	case 'g', 'G':
		P = -1
	}
	if st.hasPrec {
		P = st.prec
	}
	num := x.Append(nil, f, P)
	if num[0] != '-' && num[0] != '+' {
		num = append([]byte{'+'}, num...)
	}
	if st.space && num[0] == '+' && !st.plus {
		num[0] = ' '
	}
	zero := st.zero_
	var want []byte
	if x.form == inf {
		// infinities keep their sign (a '+' unless the space flag replaced it) and are never zero padded
		want = fmtPad(want, num, st.wid, st.hasWid, st.minus, false)
	} else if st.plus || num[0] != '+' {
		if zero && st.hasWid && st.wid > len(num) {
			want = append(want, num[0])
			for i := 0; i < st.wid-len(num); i++ {
				want = append(want, '0')
			}
			want = append(want, num[1:]...)
		} else {
			want = fmtPad(want, num, st.wid, st.hasWid, st.minus, zero)
		}
	} else {
		want = fmtPad(want, num[1:], st.wid, st.hasWid, st.minus, zero)
	}
	vAssert("C13.format", sameBytes(st.buf, want))
	vReach("end")
}
