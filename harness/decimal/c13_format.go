//go:build verif

package decimal

// C13: Append/Text with an explicit precision print x rounded once (under
// x's own mode) at the requested digit position, laid out as strconv does.

// roundAt returns round(S / 10^t) under mode for a value of sign neg (t >= 0;
// the position may lie above the leading digit of S, then the result is 0 or 1).
func roundAt(S sInt, t int, mode RoundingMode, neg bool) sInt {
	if t == 0 {
		return S
	}
	q := sDivPow10(S, t)
	rem := sModPow10(S, t)
	half := sMulPow10(sU(5), t-1)
	lost := !sIsZero(rem)
	gt := sLt(half, rem)
	tie := sEq(rem, half)
	odd := sOdd(sModPow10(q, 1))
	inc := vAnd(lost, specInc(mode, neg, gt, tie, odd))
	return sAdd(q, sIte(inc, sU(1), sU(0)))
}

// digitsOf appends the n decimal digits of N (most significant first, zero padded).
func digitsOf(out []byte, N sInt, n int) []byte {
	for i := n - 1; i >= 0; i-- {
		d := sModPow10(sDivPow10(N, i), 1)
		out = append(out, '0'+specByte(d))
	}
	return out
}

func sameBytes(a, b []byte) bool {
	if len(a) != len(b) {
		return false
	}
	ok := true
	for i := range a {
		ok = vAnd(ok, a[i] == b[i])
	}
	return ok
}

func H_C13_fmt() {
	w, P := vCfgOr("w", 1), vCfg("P")
	f := byte(vCfg("fmt"))
	x := vDec("x", fFinite, w, 0, 0)
	vAssume(vAnd(int(x.exp) >= vCfg("elo"), int(x.exp) <= vCfg("ehi")))
	xs := snap(x)
	var got []byte
	k := vCatch(func() { got = x.Append(make([]byte, 0, 160), f, P) })
	vAssert("C13.nopanic", k == 0)
	if k != 0 {
		return
	}
	vAssert("C09.operand", unchanged(x, xs))
	M := specMant(x)
	nd := w * _DW
	var want []byte
	if x.neg {
		want = append(want, '-')
	}
	switch f {
	case 'e', 'E':
		// P+1 significant digits
		r := roundRef(M, false, 0, P+1, x.mode, x.neg, nd, nd) // exponent relative: E = nd (+1 on carry)
		X := int64(x.exp) + (r.exp - int64(nd))
		want = digitsOf(want, sDivPow10(r.M, P), 1)
		if P > 0 {
			want = append(want, '.')
			want = digitsOf(want, sModPow10(r.M, P), P)
		}
		want = append(want, f)
		e := X - 1
		if e < 0 {
			want = append(want, '-')
			e = -e
		} else {
			want = append(want, '+')
		}
		ec := int(vConcI(e))
		ne := 2
		for t := 100; ec >= t; t *= 10 {
			ne++
		}
		want = digitsOf(want, sI(int64(ec)), ne)
	case 'f':
		// value * 10^P rounded to an integer N
		ex := int(vConcI(int64(x.exp)))
		t := nd - ex - P
		var N sInt
		if t <= 0 {
			N = sMulPow10(M, -t)
		} else {
			N = roundAt(M, t, x.mode, x.neg)
		}
		ip := sDivPow10(N, P)
		ni := 1
		if !sIsZero(ip) {
			ni = specDigits(ip, 1, maxInt(ex, 0)+1)
		}
		want = digitsOf(want, ip, ni)
		if P > 0 {
			want = append(want, '.')
			want = digitsOf(want, sModPow10(N, P), P)
		}
	}
	vAssert("C13.layout", sameBytes(got, want))
	vReach("end")
}

// H_C13_zero: the text of a zero does not depend on the exponent (or mantissa
// buffer) left over from a previous finite value.
func H_C13_zero() {
	f := byte(vCfg("fmt"))
	P := vCfgOr("P", -1)
	x := vDec("x", fZero, 1, vCfgOr("capx", 2), 0)
	ref := new(Decimal)
	ref.neg = x.neg
	var got, want []byte
	k := vCatch(func() {
		got = x.Append(make([]byte, 0, 64), f, P)
		want = ref.Append(make([]byte, 0, 64), f, P)
	})
	vAssert("C13.nopanic", k == 0)
	vAssert("C13.zero", sameBytes(got, want))
	vReach("end")
}
