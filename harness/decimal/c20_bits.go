//go:build verif

package decimal

// C20: SetBitsExp/BitsExp and MantExp/SetMantExp.

// H_C20_setbits: arbitrary word slice (zero pattern of the high words given by
// cfg "lz" = number of leading (most significant) zero words).
func H_C20_setbits() {
	n, lz, p := vCfg("n"), vCfg("lz"), vCfg("p")
	mant := make([]Word, n, n+vCfgOr("capx", 0))
	for i := 0; i < n; i++ {
		if i >= n-lz {
			mant[i] = 0
		} else if i == n-lz-1 {
			mant[i] = Word(vU64(vN("m", i), 1, _DMax)) // highest non-zero word
		} else {
			mant[i] = Word(vU64(vN("m", i), 0, _DMax))
		}
	}
	S := sFromWords(mant)
	e := vI64("e", -1<<63, 1<<63-1)
	z := vDec("z", vCfgOr("zf", fZero), 1, 0, p)
	if p == 0 {
		z.prec = 0
	}
	mode := z.mode
	k := vCatch(func() { z.SetBitsExp(mant, e) })
	vAssert("C04.nopanic", k == 0)
	if k != 0 {
		return
	}
	nz := n - lz
	if nz == 0 {
		vAssert("C20.zero", vAnd(z.form == zero, !z.neg))
		vAssert("C02.acc", z.acc == Exact)
	} else if p > 0 {
		// value 0.mant x 10^e  ==  S x 10^(e - 19n)
		// keep the exponent arithmetic inside int64 for the reference
		vAssume(vAnd(e > -1<<62, e < 1<<62))
		r := roundRef(S, false, e-int64(n*_DW), p, mode, false, (nz-1)*_DW+1, nz*_DW)
		refMatch("C20.value", "C02.acc", z, r, false)
	}
	if nz > 0 && p == 0 {
		// zero-precision receiver: precision becomes max(#digits supplied, 34), value exact
		vAssume(vAnd(e > -1<<62, e < 1<<62))
		kd := specDigits(S, (nz-1)*_DW+1, nz*_DW)
		pe := kd
		if pe < DefaultDecimalPrec {
			pe = DefaultDecimalPrec
		}
		vAssert("C09.prec", z.prec == uint32(pe))
		r := roundRef(S, false, e-int64(n*_DW), pe, mode, false, kd, kd)
		refMatch("C20.value", "C02.acc", z, r, false)
	}
	vAssert("C08.inv", invOK(z))
	vReach("end")
}

// H_C20_mantexp: MantExp / SetMantExp / BitsExp on arbitrary x.
func H_C20_mantexp() {
	fx, w := vCfg("fx"), vCfgOr("w", 1)
	x := vDec("x", fx, w, 0, 0)
	xs := snap(x)
	m := vDec("m", vCfgOr("mf", fZero), 1, vCfgOr("capx", 0), 0)
	var exp int
	k := vCatch(func() { exp = x.MantExp(m) })
	vAssert("C04.nopanic", k == 0)
	vAssert("C09.operand", unchanged(x, xs))
	// mant in [0.1, 1), same sign/form/prec/mode; x == mant x 10^exp
	ok := vAnd(m.form == x.form, vAnd(m.neg == x.neg, vAnd(m.prec == x.prec, m.mode == x.mode)))
	if fx == fFinite {
		ok = vAnd(ok, vAnd(m.exp == 0, exp == int(x.exp)))
		ok = vAnd(ok, sEq(sFromWords(m.mant), specMant(x)))
		ok = vAnd(ok, len(m.mant) == len(x.mant))
	} else {
		ok = vAnd(ok, exp == 0)
	}
	vAssert("C20.mantexp", ok)
	vAssert("C08.inv", invOK(m))
	// BitsExp denotes exactly |x|
	bm, be := x.BitsExp()
	if fx == fFinite {
		vAssert("C20.bitsexp", vAnd(be == x.exp, sEq(sFromWords(bm), specMant(x))))
	} else {
		vAssert("C20.bitsexp", len(bm) == 0)
	}
	// SetMantExp(mant, exp) rebuilds x; with an arbitrary extra exponent it
	// saturates exactly when the exponent leaves the range
	extra := int(vI64("extra", -1<<63, 1<<63-1))
	z := vDec("z", vCfgOr("zf", fZero), 1, 0, 0)
	k2 := vCatch(func() { z.SetMantExp(m, extra) })
	vAssert("C04.nopanic", k2 == 0)
	if fx == fFinite {
		sum := int64(m.exp) + int64(extra) // m.exp == 0
		over := sum > MaxExp
		under := sum < MinExp
		// int64 wrap-around of m.exp+extra cannot occur because m.exp == 0
		if over {
			vAssert("C20.setmantexp", vAnd(z.form == inf, z.neg == x.neg))
			vAssert("C02.acc", z.acc == makeAcc(!x.neg))
		} else if under {
			vAssert("C20.setmantexp", vAnd(z.form == zero, z.neg == x.neg))
			vAssert("C02.acc", z.acc == makeAcc(x.neg))
		} else {
			ok2 := vAnd(z.form == finite, vAnd(z.neg == x.neg, int64(z.exp) == sum))
			ok2 = vAnd(ok2, sEq(sFromWords(z.mant), specMant(x)))
			ok2 = vAnd(ok2, len(z.mant) == len(x.mant))
			vAssert("C20.setmantexp", ok2)
			vAssert("C02.acc", z.acc == Exact)
		}
		vAssert("C09.attr", vAnd(z.prec == x.prec, z.mode == x.mode))
	} else {
		vAssert("C20.setmantexp", vAnd(z.form == x.form, z.neg == x.neg))
	}
	vAssert("C08.inv", invOK(z))
	vReach("end")
}
