package props

import (
	"bytes"
	"fmt"
	"go/types"
	"os"
	"path/filepath"
	"regexp"
	"sort"
	"strconv"
	"strings"
	"time"

	"golang.org/x/tools/go/ssa"

	"verif/engine/sym"
)

var kernelWrappers = map[string]bool{
	"mul10WW": true, "div10WW": true, "div10W": true, "add10VV": true, "sub10VV": true, "add10VW": true, "sub10VW": true,
	"shl10VU": true, "shr10VU": true, "mulAdd10VWW": true, "addMul10VVW": true, "div10VWW": true,
	"mulWW": true, "divWW": true, "addVV": true, "subVV": true, "addVW": true, "subVW": true, "shlVU": true, "shrVU": true,
	"mulAddVWW": true, "addMulVVW": true, "divWVW": true, "init": true,
}

func fnText(f *ssa.Function) string {
	var b bytes.Buffer
	f.WriteTo(&b)
	// drop the header line (it contains positions that are equal anyway) - keep everything
	return b.String()
}

// compareBuilds checks that the default (assembly) build and the pure-Go build
// differ only in the kernel wrappers (C07 clause 3).
func compareBuilds(ev *Evidence) (problems []string, viol []Violation) {
	load := func(tags string) (*sym.Loaded, error) {
		o := DefaultLoad()
		o.Tags = tags
		return sym.Load(o)
	}
	asm, err := load("verif")
	if err != nil {
		return []string{"cannot load the default build: " + err.Error()}, nil
	}
	pure, err := load(PureTags)
	if err != nil {
		return []string{"cannot load the pure-Go build: " + err.Error()}, nil
	}
	compared, differing := 0, []string{}
	for _, pk := range []string{"decimal", "context"} {
		a, p := asm.Pkgs[pk], pure.Pkgs[pk]
		if a == nil || p == nil {
			continue
		}
		names := map[string]bool{}
		collect := func(sp *ssa.Package, into map[string]*ssa.Function) {
			for _, m := range sp.Members {
				switch x := m.(type) {
				case *ssa.Function:
					into[x.Name()] = x
				case *ssa.Type:
					for _, t := range []interface{ String() string }{} {
						_ = t
					}
					mset := sp.Prog.MethodSets.MethodSet(x.Type())
					for i := 0; i < mset.Len(); i++ {
						if f := sp.Prog.MethodValue(mset.At(i)); f != nil && f.Pkg == sp {
							into[f.String()] = f
						}
					}
					pm := sp.Prog.MethodSets.MethodSet(types.NewPointer(x.Type()))
					for i := 0; i < pm.Len(); i++ {
						if f := sp.Prog.MethodValue(pm.At(i)); f != nil && f.Pkg == sp {
							into[f.String()] = f
						}
					}
				}
			}
		}
		fa, fp := map[string]*ssa.Function{}, map[string]*ssa.Function{}
		collect(a, fa)
		collect(p, fp)
		for n := range fa {
			names[n] = true
		}
		for n := range fp {
			names[n] = true
		}
		var sorted []string
		for n := range names {
			sorted = append(sorted, n)
		}
		sort.Strings(sorted)
		for _, n := range sorted {
			if kernelWrappers[n] || strings.HasPrefix(n, "vAsm_") || strings.HasPrefix(n, "H_") {
				continue
			}
			x, y := fa[n], fp[n]
			if x == nil || y == nil {
				if n == "support_adx" {
					continue
				}
				differing = append(differing, n+" (present in one build only)")
				continue
			}
			compared++
			if fnText(x) != fnText(y) {
				differing = append(differing, n)
			}
		}
	}
	ev.Coverage["build_configs_functions_compared"] = compared
	ev.Coverage["build_configs_differing"] = differing
	for _, d := range differing {
		problems = append(problems, "function differs between the default and the pure-Go build (not a kernel wrapper): "+d)
	}
	return problems, nil
}

func init() {
	vecNames := []string{"add10VV", "sub10VV", "add10VW", "sub10VW", "shl10VU", "shr10VU", "addMul10VVW", "mulAdd10VWW", "div10VWW"}
	_ = vecNames
	Register(&PropDef{
		ID: "C07", Level: "translation_validation", Contracts: "none", DesignRef: "DESIGN.md 5 (C07), appendix B",
		Technique: "symbolic execution of the Plan 9 amd64 assembly (p9sym) and of the go/ssa twins over the same input symbols; equality of result terms and the kernels' arithmetic contracts decided by z3; SSA comparison of the build configurations",
		Jobs: func(tier string) []*sym.Job {
			eq := obl("C07.equiv", "C07.asm", "C07.frame")
			df := obl("C07.def")
			var jobs []*sym.Job
			maxN := 9
			shifts := []int{0, 1, 9, 18}
			if tier == "thorough" {
				maxN = 40
				shifts = nil
				for s := 0; s <= 18; s++ {
					shifts = append(shifts, s)
				}
			}
			mk := func(h string, o []string, contracts string, kv ...interface{}) *sym.Job {
				j := J(h, o, kv...)
				j.Contracts = contracts
				return j
			}
			ns := []int{}
			for n := 0; n <= maxN; n++ {
				if n <= 9 || n%4 <= 1 || tier != "thorough" {
					ns = append(ns, n)
				}
			}
			if tier == "thorough" {
				ns = append(ns, 47, 64, 70)
			}
			// bounds derived from the code: every immediate k (3..64) that a vector kernel's assembly compares
			// or steps its length with (unroll factors, size thresholds) adds the lengths k-1, k, k+1, 2k, 2k+1
			hints := asmLengthHints()
			for k, hs := range hints {
				for _, n := range hs {
					if containsInt(ns, n) {
						continue
					}
					switch {
					case k <= 1:
						for _, ov := range []int{0, 1, 2} {
							jobs = append(jobs, mk("H_C07_vec", eq, "none", "k", k, "n", n, "ov", ov))
						}
					case k <= 3:
						jobs = append(jobs, mk("H_C07_vec", eq, "none", "k", k, "n", n, "ov", 0), mk("H_C07_vec", eq, "none", "k", k, "n", n, "ov", 1))
					case k <= 5:
						for _, sh := range []int{0, 1, 18} {
							jobs = append(jobs, mk("H_C07_vec", eq, "none", "k", k, "n", n, "s", sh, "ov", 0), mk("H_C07_vec", eq, "none", "k", k, "n", n, "s", sh, "ov", 1),
								mk("H_C07_vec", eq, "none", "k", k, "n", n, "s", sh, "ov", 8-k)) // shl: z one word above x (4); shr: z one word below x (3)
						}
					default:
						jobs = append(jobs, mk("H_C07_vec", eq, "none", "k", k, "n", n, "ov", 0))
						if k != 6 {
							jobs = append(jobs, mk("H_C07_vec", eq, "none", "k", k, "n", n, "ov", 1))
						}
					}
				}
			}
			for _, n := range ns {
				for _, k := range []int{0, 1} { // add10VV sub10VV: disjoint, z==x, z==y
					for _, ov := range []int{0, 1, 2} {
						if n == 0 && ov > 0 {
							continue
						}
						jobs = append(jobs, mk("H_C07_vec", eq, "none", "k", k, "n", n, "ov", ov))
					}
				}
				for _, k := range []int{2, 3} { // add10VW sub10VW: disjoint, in place
					for _, ov := range []int{0, 1} {
						if n == 0 && ov > 0 {
							continue
						}
						jobs = append(jobs, mk("H_C07_vec", eq, "none", "k", k, "n", n, "ov", ov))
					}
				}
				if n <= 12 || tier == "thorough" && n%8 == 0 {
					for _, s := range shifts {
						jobs = append(jobs, mk("H_C07_vec", eq, "none", "k", 4, "n", n, "s", s, "ov", 1))
						jobs = append(jobs, mk("H_C07_vec", eq, "none", "k", 5, "n", n, "s", s, "ov", 1))
						if n > 0 {
							jobs = append(jobs, mk("H_C07_vec", eq, "none", "k", 4, "n", n, "s", s, "ov", 0), mk("H_C07_vec", eq, "none", "k", 4, "n", n, "s", s, "ov", 4),
								mk("H_C07_vec", eq, "none", "k", 5, "n", n, "s", s, "ov", 0), mk("H_C07_vec", eq, "none", "k", 5, "n", n, "s", s, "ov", 3))
						}
					}
				}
				if n <= 6 || tier == "thorough" && n <= 12 {
					for _, k := range []int{6, 7, 8} {
						jobs = append(jobs, mk("H_C07_vec", eq, "none", "k", k, "n", n, "ov", 0))
						if n > 0 && k != 6 {
							jobs = append(jobs, mk("H_C07_vec", eq, "none", "k", k, "n", n, "ov", 1))
						}
					}
					jobs = append(jobs, mk("H_C07_divWVW", eq, "none", "n", n, "ov", 1))
				}
			}
			// definitions (Go twin == arithmetic contract); the multiplicative vector kernels use the
			// div10W_g contract, which is itself proved below from its real body
			for _, n := range []int{0, 1, 2, 3, 5, 8} {
				if n > 5 && tier != "thorough" {
					continue
				}
				for k := 0; k <= 8; k++ {
					c := "none"
					if k == 6 || k == 7 {
						c = "div10W_g"
					}
					if k == 4 || k == 5 {
						for _, s := range shifts {
							jobs = append(jobs, mk("H_C07_vec", df, c, "k", k, "n", n, "s", s, "noasm", 1))
						}
						continue
					}
					jobs = append(jobs, mk("H_C07_vec", df, c, "k", k, "n", n, "noasm", 1))
				}
			}
			jobs = append(jobs, mk("H_C07_divWVW", obl("C07."), "none", "n", 2, "ov", 1), mk("H_C07_divWVW", obl("C07."), "none", "n", 2, "ov", 0, "anyy", 1))
			all := obl("C07.")
			for k := 0; k <= 2; k++ {
				jobs = append(jobs, mk("H_C07_word", all, "none", "k", k))
			}
			for row := 0; row < 18; row++ {
				jobs = append(jobs, mk("H_C07_word", all, "none", "k", 3, "row", row))
			}
			jobs = append(jobs, mk("H_C07_word", all, "none", "k", 4))
			return jobs
		},
		Extra: func(tier string, ev *Evidence) ([]Violation, []string) {
			p, v := compareBuilds(ev)
			return v, p
		},
		Bounds: map[string]string{
			"quick":    "lengths 0..9 for every vector kernel PLUS lengths derived from the code: every immediate k in 3..64 that a kernel's assembly compares or steps with (unroll factors, size thresholds) adds the lengths k-1, k, k+1, 2k, 2k+1 for that kernel (on the pinned tree the only such constant is the unroll factor 4, already inside 0..9). equivalence assembly == Go twin (output vector, return value, no access outside the slices, DIVQ operands in range): add10VV/sub10VV lengths 0..9 x {disjoint, z is x, z is y}; add10VW/sub10VW 0..9 x {disjoint, in place} incl. the early-exit copy paths; shl10VU/shr10VU 0..9 x shifts {0,1,9,18} x {disjoint, in place, shifted overlap as used by dec.shl/dec.shr}; addMul10VVW/mulAdd10VWW/div10VWW 0..6; divWVW (arith_amd64.s) 0..6; mul10WW, div10WW, div10W. Definitions: every Go twin against its arithmetic contract for lengths {0,1,2,3,5}; all 18 rows of the division-by-constant table for every 64-bit operand; decDigits64. All word values under the kernels' preconditions. Build configurations: every non-wrapper function has identical SSA under the default and the pure-Go tag sets.",
			"thorough": "lengths 0..9, then 12,13,16,17,...,40 and 47, 64, 70 for the additive kernels; all shifts 0..18; multiplicative kernels up to 12.",
		},
		Outside: []string{
			"other architectures' assembly files (not built on amd64)", "micro-architectural behaviour; the instruction semantics are p9sym's model of the amd64 manual for the subset used (DESIGN appendix B); any other instruction aborts the run",
			"the remaining routines of arith_amd64.s (addVV, shlVU, ...) which the library does not call",
		},
		Assumptions: []string{"kernel preconditions: words below 10^19, dividend high word below the divisor, shift below 19", "the Go ABI0 frame layout", "flags left undefined by the manual are modelled as undefined: any use aborts"},
		LevelText:   "Translation validation of the hand-written assembly against the portable Go twins: both are executed symbolically over the same input symbols and the solver proves the outputs equal for all word values, for every vector length, overlap pattern and shift count in the bound; the twins are proved equal to their mathematical definitions, and the build configurations are compared function by function.",
		LevelNote:   "Trusted: the parser and instruction semantics of p9sym (validated against the assembled kernels through replay and the repository's own vectors), go/ssa, z3.",
		Timeout:     map[string]time.Duration{"quick": 300 * time.Second, "thorough": 300 * time.Second},
	})
}

func init() { _ = fmt.Sprint }

func containsInt(l []int, v int) bool {
	for _, x := range l {
		if x == v {
			return true
		}
	}
	return false
}

var asmImm = regexp.MustCompile(`\$(\d+)\b`)

// asmLengthHints reads /repo's dec_arith_amd64.s and returns, per vector kernel index (the k of
// H_C07_vec), the vector lengths suggested by the immediates 3..64 used in that kernel's TEXT block.
func asmLengthHints() map[int][]int {
	idx := map[string]int{"add10VV": 0, "sub10VV": 1, "add10VW": 2, "sub10VW": 3, "shl10VU": 4, "shr10VU": 5, "mulAdd10VWW": 6, "addMul10VVW": 7, "div10VWW": 8}
	out := map[int][]int{}
	b, err := os.ReadFile(filepath.Join(RepoDir(), "dec_arith_amd64.s"))
	if err != nil {
		return out
	}
	cur := -1
	for _, line := range strings.Split(string(b), "\n") {
		if i := strings.Index(line, "//"); i >= 0 {
			line = line[:i]
		}
		if strings.HasPrefix(line, "TEXT ") {
			cur = -1
			for name, k := range idx {
				if strings.Contains(line, "·"+name+"(SB)") {
					cur = k
				}
			}
			continue
		}
		if cur < 0 {
			continue
		}
		f := strings.Fields(line)
		if len(f) == 0 {
			continue
		}
		op := strings.TrimSuffix(f[0], ":")
		if len(f) > 1 && strings.HasSuffix(f[0], ":") {
			op = f[1]
		}
		switch op {
		case "CMPQ", "SUBQ", "ANDQ", "TESTQ", "ADDQ", "SHRQ", "CMPL", "LEAQ":
		default:
			continue
		}
		for _, m := range asmImm.FindAllStringSubmatch(line, -1) {
			v, _ := strconv.Atoi(m[1])
			if v < 3 || v > 64 {
				continue
			}
			for _, n := range []int{v - 1, v, v + 1, 2 * v, 2*v + 1} {
				if n <= 70 && !containsInt(out[cur], n) {
					out[cur] = append(out[cur], n)
				}
			}
		}
	}
	for k := range out {
		sort.Ints(out[k])
	}
	return out
}
