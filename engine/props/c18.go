package props

import (
	"time"

	"verif/engine/sym"
)

func init() {
	Register(&PropDef{
		ID: "C18", Level: "other", Contracts: "default", DesignRef: "DESIGN.md 5 (C18)",
		Technique: "reduction of the schedule quantifier to per-operation write-confinement and pool-discipline premises, each decided on every symbolic path of the real code (gosym memory model with ownership tags; sync.Pool modelled as returning nil, a recycled or a foreign buffer with unconstrained contents); SMT for path feasibility and the operand-snapshot obligations",
		Jobs: func(tier string) []*sym.Job {
			o := obl("C18.")
			cj := func(kv ...interface{}) *sym.Job {
				j := J("H_C18_op", o, kv...)
				j.Confine = true
				return j
			}
			jobs := []*sym.Job{
				cj("op", 0, "d", 0), cj("op", 0, "d", 3, "wx", 2), cj("op", 1, "d", 0), cj("op", 1, "d", -20),
				cj("op", 2), cj("op", 2, "wx", 2, "wy", 1), cj("op", 3), cj("op", 4), cj("op", 4, "wx", 2, "bst", 2), cj("op", 5),
				cj("op", 6), cj("op", 6, "wx", 2), cj("op", 7), cj("op", 7, "wx", 2), cj("op", 8), cj("op", 8, "wx", 2), cj("op", 9, "stubs", 1), cj("op", 9, "fx", 0), cj("op", 10), cj("op", 10, "wx", 2, "zf", 1, "zcap", 1),
				cj("op", 11), // Append(nil, 'e', -1): formatting only reads its operand
			}
			for op := 0; op <= 3; op++ {
				jobs = append(jobs, cj("op", op, "fx", 0), cj("op", op, "fy", 2, "fx", 1))
			}
			// the real Sqrt (float64 seed + Newton iteration, no stub) on concrete operands: all stores of the
			// iteration against the ownership tags, oneHalf/three and the operand compared afterwards
			for _, c := range [][4]int{{5, 2, 0, 19}, {19, 3, 0, 19}, {40, 2, 0, 19}, {40, 20, -1, 19}, {100, 7, 5, 3}, {33, 1234567, -3, 60}} {
				j := J("H_C18_sqrtreal", o, "p", c[0], "v", c[1], "e", c[2], "px", c[3])
				j.Confine = true
				jobs = append(jobs, j)
			}
			if tier == "thorough" {
				jobs = append(jobs, cj("op", 0, "d", 19, "wx", 2, "wy", 2), cj("op", 5, "wx", 1, "wy", 1, "zf", 1, "zcap", 3), cj("op", 11, "wx", 2))
			}
			return jobs
		},
		Bounds: map[string]string{
			"quick":    "Add, Sub (aligned and shifted), Mul (1x1, 2x1), x*x through decBasicSqr (threshold lowered so that the pool path is taken), Quo by a one-word divisor, FMA, Cmp, Int64/Uint64/Int/IsInt/MinPrec, GobEncode, Sqrt (prologue/epilogue with a stubbed iteration for all operand values; the real float64-seeded Newton iteration for six concrete operands at precisions 5..100), Set/Neg/Abs/SetMantExp/MantExp/Copy, Append(nil,'e',-1) of a one-word value (exponents -5..45), special-value operands: every store checked against the ownership tags; every sync.Pool.Get answers nil, recycled (contents havocked) and foreign buffer; operand snapshots (fields and all words up to capacity) compared afterwards. 1-2 word operands, all values.",
			"thorough": "plus a wider Add, a dirty receiver for FMA and Append of a two-word value. (Karatsuba multiplication through Decimal.Mul with a lowered threshold was tried at 2x2 and 3x2 words: the rounding of a symbolic Karatsuba product after the pool forks does not finish within 45 minutes and is not registered.)",
		},
		Outside: []string{
			"interleavings are not enumerated: the claim is the source-level non-interference argument (disjoint write sets, operands and package-level variables never written, pool buffers exclusive by sync.Pool's contract); the Go runtime, sync.Pool's implementation and compiler reorderings are trusted",
			"the long-division pool usage (divLarge/divBasic with multi-word divisors), the Karatsuba temporaries of dec.mul/dec.sqr (pool buffer of 3k words; reached only above 30 words) are not in the explored path set; of the text formatting only Append with format e and precision -1",
		},
		Assumptions: []string{"sync.Pool hands a buffer to one goroutine at a time (its documented contract)", "receiver distinct from the shared operands", archNote},
		LevelText:   "Not an enumeration of schedules: for every operation of the statement the executor decides, on every symbolic path, that all stores go to the receiver, to memory allocated during the call or to a buffer taken from the pool during the call, that package-level variables (oneHalf, three, thresholds, tables) are never written, and that pool buffers are not used after putDec nor reachable from the result. Two operations sharing only operands then have disjoint write sets that are disjoint from each other's read sets, hence no data race and sequentially consistent results under the Go memory model.",
		LevelNote:   "Level 'other': a reduction whose premises are model-checked symbolically. " + trusted,
		Timeout:     map[string]time.Duration{"quick": 300 * time.Second, "thorough": 300 * time.Second},
	})
}
