package props

import (
	"time"

	"verif/engine/sym"
)

func init() {
	Register(&PropDef{
		ID: "C05", Level: "model_checking", Contracts: "default", DesignRef: "DESIGN.md 5 (C05), 7",
		Jobs: func(tier string) []*sym.Job {
			o := obl("C05.", "C02.", "C08.", "C09.")
			jobs := []*sym.Job{
				J("H_C05_sqrt", o, "fx", 0, "p", 5), J("H_C05_sqrt", o, "fx", 0, "p", 5, "p0", 1), J("H_C05_sqrt", o, "fx", 2, "p", 5), J("H_C05_sqrt", o, "fx", 2, "neg", 1), J("H_C05_sqrt", o, "fx", 1, "neg", 1),
				J("H_C05_sqrt", o, "fx", 1, "w", 1, "p", 5, "stubs", 1), J("H_C05_sqrt", o, "fx", 1, "w", 1, "p", 30, "stubs", 1), J("H_C05_sqrt", o, "fx", 1, "w", 2, "p0", 1, "stubs", 1),
				J("H_C05_sqrt", o, "fx", 1, "w", 1, "p", 19, "zf", 1, "stubs", 1), J("H_C05_sqrt", o, "fx", 1, "w", 2, "p", 3, "zf", 2, "stubs", 1),
				// the receiver is the operand itself
				J("H_C05_alias", o, "w", 1, "stubs", 1), J("H_C05_alias", o, "w", 2, "px", 25, "stubs", 1),
			}
			if tier == "thorough" {
				for _, p := range []int{1, 2, 18, 20, 37, 38, 39, 57} {
					jobs = append(jobs, J("H_C05_sqrt", o, "fx", 1, "w", 2, "p", p, "stubs", 1), J("H_C05_sqrt", o, "fx", 1, "w", 3, "p", p, "stubs", 1))
				}
			}
			return jobs
		},
		Bounds: map[string]string{
			"quick":    "Sqrt of +-0, +-Inf, negative finite values (ErrNaN, receiver valid); finite x of 1-2 words with every exponent (even, odd, negative, range ends), receiver precision {0, 3, 5, 19, 30} and dirty receivers: precision and rounding mode after the call equal those before it (x's precision if it was 0), operand unchanged, result non-negative and Inv. The Newton iteration is replaced by a frame stub (vStub_sqrtInverse: z = z*3 through the real Mul).",
			"thorough": "as quick with 2-3 word operands and precisions {1,2,18,20,37,38,39,57}.",
		},
		Outside: []string{
			"NOT DECIDED: correct rounding of the root. It depends on 1/math.Sqrt(float64) (symbolic IEEE division and square root: z3 4.8.12, z3 5.1.0 and cvc5 answer unknown/timeout at 120 s on the one-step lemmas, DESIGN 3) and on a Newton loop of growing multi-word precision; only the code of Sqrt around sqrtInverse is encoded.",
		},
		Assumptions: []string{"sqrtInverse replaced by the stub vStub_sqrtInverse (same frame: overwrites z through the real Mul)", archNote},
		LevelText:   "Bounded symbolic model checking of the decidable half of C05: special values, ErrNaN, attribute preservation (precision AND rounding mode), operand immutability and the exponent bookkeeping of Sqrt, for all values in the bound. The numeric half (correctly rounded root) is outside the reach of solver-based checking here and is NOT claimed.",
		LevelNote:   "Partial: the value of the root is not verified. " + trusted,
		Timeout:     map[string]time.Duration{"quick": 150 * time.Second, "thorough": 300 * time.Second},
	})
	Register(&PropDef{
		ID: "C06", Level: "model_checking", Contracts: "decDigits64,magic.div,div10W_g", DesignRef: "DESIGN.md 5 (C06), 2.4",
		Jobs: func(tier string) []*sym.Job {
			o := obl("C06.")
			var jobs []*sym.Job
			// schoolbook
			for _, c := range [][2]int{{1, 1}, {2, 1}, {2, 2}, {3, 2}, {3, 3}, {4, 4}} {
				jobs = append(jobs, J("H_C06_mul", o, "m", c[0], "n", c[1]))
			}
			// Karatsuba and the unbalanced tail loop reached by lowering the threshold variable
			jobs = append(jobs, J("H_C06_mul", o, "m", 2, "n", 2, "kt", 2))
			// squaring: mul10WW, decBasicMul branch, decBasicSqr branch
			jobs = append(jobs, J("H_C06_sqr", o, "m", 1), J("H_C06_sqr", o, "m", 2), J("H_C06_sqr", o, "m", 3), J("H_C06_sqr", o, "m", 2, "bst", 2))
			// division: comparison shortcut, single-word divisor
			jobs = append(jobs, J("H_C06_div", o, "m", 1, "n", 1), J("H_C06_div", o, "m", 2, "n", 1), J("H_C06_div", o, "m", 3, "n", 1), J("H_C06_div", o, "m", 1, "n", 2))
			// multi-word divisors (divLarge: scaling, Knuth D with add-back, un-scaling): concrete divisors from
			// the extremal pattern list, arbitrary dividends
			for _, pat := range [][2]int{{4, 2}, {4, 3}, {0, 2}, {4, 4}, {1, 6}} {
				jobs = append(jobs, J("H_C06_divpat", o, "n", 2, "m", 3, "v0", pat[0], "v1", pat[1]), J("H_C06_divpat", o, "n", 2, "m", 2, "v0", pat[0], "v1", pat[1]))
			}
			jobs = append(jobs, J("H_C06_divpat", o, "n", 3, "m", 4, "v0", 4, "v1", 4, "v2", 2), J("H_C06_divpat", o, "n", 3, "m", 3, "v0", 0, "v1", 4, "v2", 3))
			// results do not depend on the thresholds: same query under two assignments
			jobs = append(jobs, J("H_C06_thresh", o, "m", 2, "n", 2))
			if tier == "thorough" {
				jobs = append(jobs, J("H_C06_mul", o, "m", 5, "n", 4), J("H_C06_mul", o, "m", 6, "n", 6), J("H_C06_mul", o, "m", 3, "n", 2, "kt", 2), J("H_C06_mul", o, "m", 3, "n", 3, "kt", 2),
					J("H_C06_sqr", o, "m", 4), J("H_C06_sqr", o, "m", 3, "bst", 2), J("H_C06_div", o, "m", 4, "n", 1), J("H_C06_div", o, "m", 2, "n", 3),
					J("H_C06_divpat", o, "n", 2, "m", 4, "v0", 4, "v1", 2), J("H_C06_divpat", o, "n", 2, "m", 4, "v0", 5, "v1", 3), J("H_C06_divpat", o, "n", 3, "m", 5, "v0", 4, "v1", 4, "v2", 2))
			}
			return jobs
		},
		Bounds: map[string]string{
			"quick":    "dec.mul: schoolbook 1x1..4x4 words, Karatsuba (threshold variable lowered to 2) at 2x2; dec.sqr: 1-3 words via mul10WW/decBasicMul, decBasicSqr (threshold lowered) at 2 words; dec.div: dividend shorter than divisor, single-word divisors with 1-3 word dividends (divW/div10VWW), and 2- and 3-word divisors taken from a list of extremal patterns (top word D/2, D/2+1, D-1, 7e18; lower words D-1, 0, 1, ...) with ARBITRARY dividends of up to one more word than the divisor + 1 (divLarge scaling, divBasic quotient-digit estimation, correction loop, add-back, un-scaling); threshold independence at 2x2. All word values (< 10^19), including whole-word runs of 0s and 9s.",
			"thorough": "dec.mul up to 6x6 schoolbook and 3x3 Karatsuba incl. the unbalanced loop; decBasicSqr at 3 words; divisors of 1 word with 4-word dividends.",
		},
		Outside: []string{
			"dec.div with SYMBOLIC divisors of two or more words: the obligations come back unknown (no loop-head invariant cuts, DESIGN 2.4); multi-word divisors are covered only for the concrete extremal patterns listed in the bounds. Consequence: C01's Quo jobs with symbolic multi-word divisors rest on the dec.div contract as an assumption. divRecursive (threshold constant 100) is not reached.",
			"operand sizes at the real tuning thresholds (30/10/50/100 words): the algorithms are covered structurally by lowering the threshold variables",
		},
		Assumptions: []string{"operands are normalised decs with words below 10^19", "kernel contracts decDigits64, magic.div, div10W_g proved by C07's check", archNote},
		LevelText:   "Bounded symbolic model checking at the natural-number layer: value(z) == value(x)*value(y) (expanded into word products, the same monomials the kernels produce), squares likewise, u == q*v + r with 0 <= r < v for one-word divisors; every output word below the base and normalised; no panic. These identities are the contracts that C01/C02 use for multi-word Mul/Quo.",
		LevelNote:   "Partial: multi-word divisors only for concrete extremal patterns. " + trusted,
		Timeout:     map[string]time.Duration{"quick": 120 * time.Second, "thorough": 600 * time.Second},
	})
}
