package props

import (
	"time"

	"verif/engine/sym"
)

func init() {
	Register(&PropDef{
		ID: "C05", Level: "model_checking", Contracts: "default", DesignRef: "DESIGN.md 5 (C05), 7",
		Technique: "bounded symbolic execution of go/ssa (gosym) + SMT (z3): (a) all operand values with the Newton iteration replaced by frame stubs; (b) the real Sqrt (float64 seed, Newton loop, floor search, rounding) executed by the same symbolic executor on a family of concrete hard-case operands with the rounding mode as the solver variable, against an integer square-and-compare oracle; counterexamples replayed natively on both builds",
		Jobs: func(tier string) []*sym.Job {
			o := obl("C05.", "C02.", "C08.", "C09.")
			jobs := []*sym.Job{
				J("H_C05_sqrt", o, "fx", 0, "p", 5), J("H_C05_sqrt", o, "fx", 0, "p", 5, "p0", 1), J("H_C05_sqrt", o, "fx", 2, "p", 5), J("H_C05_sqrt", o, "fx", 2, "neg", 1), J("H_C05_sqrt", o, "fx", 1, "neg", 1),
				J("H_C05_sqrt", o, "fx", 1, "w", 1, "p", 5, "stubs", 1), J("H_C05_sqrt", o, "fx", 1, "w", 1, "p", 30, "stubs", 1), J("H_C05_sqrt", o, "fx", 1, "w", 2, "p0", 1, "stubs", 1),
				J("H_C05_sqrt", o, "fx", 1, "w", 1, "p", 19, "zf", 1, "stubs", 1), J("H_C05_sqrt", o, "fx", 1, "w", 2, "p", 3, "zf", 2, "stubs", 1),
				// the receiver is the operand itself
				J("H_C05_alias", o, "w", 1, "stubs", 1), J("H_C05_alias", o, "w", 2, "px", 25, "stubs", 1),
			}
			// the numeric half on the real Sqrt (no stub): concrete operands from the hard-case family, symbolic mode
			ks := []int{3, 7, 12, 99, 316, 3162277, 999999999, 3037000499}
			ps := []int{1, 5, 16, 19, 20}
			xes := []int{0, 1, -7}
			if tier == "thorough" {
				ks = []int{1, 2, 3, 5, 7, 10, 12, 31, 99, 101, 316, 317, 9999, 3162277, 999999999, 1000000001, 2147483647, 3037000499}
				ps = []int{1, 2, 3, 5, 9, 15, 16, 17, 18, 19, 20, 37, 38, 39, 57}
				xes = []int{0, 1, -1, 6, -7, 19, -38}
			}
			for _, k := range ks {
				for _, p := range ps {
					for i, xe := range xes {
						for _, delta := range []int{0, 1, -1} {
							if tier != "thorough" && (i+delta+p+k)%3 != 0 && !(delta == 0 && xe == 0) {
								continue // quick: a third of the combinations, all perfect squares with exponent 0
							}
							if k == 1 && delta == -1 {
								continue // x = 0
							}
							jobs = append(jobs, J("H_C05_root", o, "k", k, "p", p, "xe", xe, "delta", delta))
						}
					}
				}
			}
			for _, c := range [][3]int{{1, 1, 0}, {2, 1, 0}, {12, 2, 1}, {999, 3, 0}, {4, 1, -3}, {123456789, 9, 0}, {94, 2, 5}} {
				// exact midpoints (k + 1/2) at the precision of k: ties for the nearest modes
				jobs = append(jobs, J("H_C05_root", o, "k", c[0], "p", c[1], "xe", c[2], "mid", 1))
			}
			for _, c := range [][2]int{{2, 5}, {2, 19}, {2, 40}, {3, 16}, {5, 17}, {10, 18}, {123456789, 30}, {2, 100}} {
				// non-squares
				jobs = append(jobs, J("H_C05_root", o, "k", c[0], "p", c[1], "sq", 0), J("H_C05_root", o, "k", c[0], "p", c[1], "sq", 0, "xe", -1))
			}
			if tier == "thorough" {
				for _, p := range []int{1, 2, 18, 20, 37, 38, 39, 57} {
					jobs = append(jobs, J("H_C05_sqrt", o, "fx", 1, "w", 2, "p", p, "stubs", 1), J("H_C05_sqrt", o, "fx", 1, "w", 3, "p", p, "stubs", 1))
				}
			}
			return jobs
		},
		Bounds: map[string]string{
			"quick":    "(a) for ALL operand values: Sqrt of +-0, +-Inf, negative finite values (ErrNaN, receiver valid); finite x of 1-2 words with every exponent (even, odd, negative, range ends), receiver precision {0, 3, 5, 19, 30} and dirty receivers: precision and rounding mode after the call equal those before it (x's precision if it was 0), operand unchanged, result non-negative and Inv, same result when the receiver is the operand; in these jobs the Newton iteration and the exact-floor search are replaced by frame stubs (vStub_sqrtInverse: z = z*3 through the real Mul; vStub_sqrtTruncate: no-op). (b) the correctly rounded ROOT on the real Sqrt (float64 seed, Newton iteration, floor search, final rounding - nothing stubbed) for a family of CONCRETE operands and every rounding mode (symbolic): k^2, k^2+1, k^2-1 for k in {3,7,12,99,316,3162277,999999999,3037000499} times 10^{0,1,-7}, precisions {1,5,16,19,20} (a third of the combinations plus every perfect square with exponent 0), seven exact midpoints (k+1/2)^2 at the tie precision, non-squares 2,3,5,10,123456789 at precisions 5..100 with even and odd exponent: about 170 operands x 6 modes.",
			"thorough": "(a) with 2-3 word operands and precisions {1,2,18,20,37,38,39,57}; (b) the full product of 18 roots k (1 .. 3037000499) x {k^2, k^2+1, k^2-1} x exponents {0,1,-1,6,-7,19,-38} x 15 precisions 1..57: about 5600 operands x 6 modes.",
		},
		Outside: []string{
			"the numeric half is decided for the listed concrete operands only: the iteration starts from math.Sqrt of a float64, which the executor interprets concretely (symbolic IEEE division/sqrt: z3 4.8.12, z3 5.1.0 and cvc5 answer unknown/timeout at 120 s on one-step lemmas, DESIGN 3), so the operand cannot be a solver variable; the solver's quantifier there is the rounding mode. Operands outside the family, mantissas above 19 digits in the root jobs, precisions above 100.",
		},
		Assumptions: []string{"jobs of part (a) replace sqrtInverse/sqrtTruncate by the stubs vStub_sqrtInverse/vStub_sqrtTruncate (same frame: z overwritten through the real Mul); part (b) runs the real code", "the oracle of part (b) is square-and-compare on integers (r^2, next^2, prev^2 and the midpoints against x after scaling to a common exponent): no root is computed by the checker", archNote},
		LevelText:   "Bounded symbolic model checking. (a) For all operand values: special values, ErrNaN, attribute preservation (precision AND rounding mode), operand immutability, alias independence and the exponent bookkeeping of Sqrt. (b) Correct rounding of the root by executing the real Sqrt on concrete hard-case operands (perfect squares, their neighbours, exact midpoints, odd/even exponents) with the rounding mode symbolic; the result must be the exact root, or the floor/ceiling neighbour the mode selects, decided by integer square comparisons.",
		LevelNote:   "Part (b) quantifies over modes, not operands: it is a family of concrete operands pushed through the symbolic executor, which is as far as solver-based checking reaches here. " + trusted,
		Timeout:     map[string]time.Duration{"quick": 300 * time.Second, "thorough": 300 * time.Second},
	})
	Register(&PropDef{
		ID: "C06", Level: "model_checking", Contracts: "decDigits64,magic.div,div10W_g", DesignRef: "DESIGN.md 5 (C06), 2.4",
		Jobs: func(tier string) []*sym.Job {
			o := obl("C06.")
			var jobs []*sym.Job
			// schoolbook
			for _, c := range [][2]int{{1, 1}, {2, 1}, {2, 2}, {3, 2}, {3, 3}, {4, 4}} {
				jobs = append(jobs, J("H_C06_mul", o, "m", c[0], "n", c[1]))
			}
			// Karatsuba and the unbalanced tail loop reached by lowering the threshold variable
			jobs = append(jobs, J("H_C06_mul", o, "m", 2, "n", 2, "kt", 2))
			// squaring: mul10WW, decBasicMul branch, decBasicSqr branch
			jobs = append(jobs, J("H_C06_sqr", o, "m", 1), J("H_C06_sqr", o, "m", 2), J("H_C06_sqr", o, "m", 3), J("H_C06_sqr", o, "m", 2, "bst", 2))
			// division: comparison shortcut, single-word divisor
			jobs = append(jobs, J("H_C06_div", o, "m", 1, "n", 1), J("H_C06_div", o, "m", 2, "n", 1), J("H_C06_div", o, "m", 3, "n", 1), J("H_C06_div", o, "m", 1, "n", 2))
			// multi-word divisors (divLarge: scaling, Knuth D with add-back, un-scaling): concrete divisors from
			// the extremal pattern list, arbitrary dividends
			for _, pat := range [][2]int{{4, 2}, {4, 3}, {0, 2}, {4, 4}, {1, 6}} {
				jobs = append(jobs, J("H_C06_divpat", o, "n", 2, "m", 3, "v0", pat[0], "v1", pat[1]), J("H_C06_divpat", o, "n", 2, "m", 2, "v0", pat[0], "v1", pat[1]))
			}
			jobs = append(jobs, J("H_C06_divpat", o, "n", 3, "m", 4, "v0", 4, "v1", 4, "v2", 2), J("H_C06_divpat", o, "n", 3, "m", 3, "v0", 0, "v1", 4, "v2", 3))
			// aliased receivers of the long division: quotient / remainder receiver == divisor / dividend
			// (with spare capacity, so that the operand's array really is reused)
			for a := 1; a <= 4; a++ {
				jobs = append(jobs, J("H_C06_divpat", o, "n", 2, "m", 3, "v0", 4, "v1", 2, "alias", a))
			}
			jobs = append(jobs, J("H_C06_divpat", o, "n", 3, "m", 4, "v0", 4, "v1", 4, "v2", 2, "alias", 1))
			// the helpers the long algorithms are built from, each against its arithmetic definition
			for _, c := range [][3]int{{3, 1, 1}, {3, 2, 0}, {4, 2, 1}, {5, 2, 1}, {5, 1, 2}, {6, 3, 0}, {6, 2, 2}} {
				jobs = append(jobs, J("H_C06_units", o, "unit", 1, "lz", c[0], "n", c[1], "i", c[2]))
			}
			for w, is := range [][]int{nil, {0, 1, 9, 18, 19, 22}, {0, 7, 18, 19, 20, 37, 38, 40}, {19, 38, 45, 56, 57}} {
				for _, i := range is {
					jobs = append(jobs, J("H_C06_units", o, "unit", 2, "w", w, "i", i))
				}
			}
			jobs = append(jobs, J("H_C06_units", o, "unit", 4, "w", 1), J("H_C06_units", o, "unit", 4, "w", 2))
			for _, w := range []int{1, 2} {
				for _, sh := range []int{0, 1, 18, 19, 20, 38} {
					for a := 0; a <= 2; a++ {
						jobs = append(jobs, J("H_C06_units", o, "unit", 3, "w", w, "s", sh, "alias", a), J("H_C06_units", o, "unit", 3, "w", w, "s", sh, "alias", a, "right", 1))
					}
				}
			}
			// results do not depend on the thresholds: same query under two assignments
			jobs = append(jobs, J("H_C06_thresh", o, "m", 2, "n", 2))
			if tier == "thorough" {
				jobs = append(jobs, J("H_C06_mul", o, "m", 5, "n", 4), J("H_C06_mul", o, "m", 6, "n", 6), J("H_C06_mul", o, "m", 3, "n", 2, "kt", 2),
					J("H_C06_sqr", o, "m", 4), J("H_C06_sqr", o, "m", 3, "bst", 2), J("H_C06_div", o, "m", 4, "n", 1), J("H_C06_div", o, "m", 2, "n", 3),
					J("H_C06_divpat", o, "n", 2, "m", 4, "v0", 4, "v1", 2), J("H_C06_divpat", o, "n", 2, "m", 4, "v0", 5, "v1", 3), J("H_C06_divpat", o, "n", 3, "m", 5, "v0", 4, "v1", 4, "v2", 2),
					J("H_C06_divpat", o, "n", 2, "m", 4, "v0", 5, "v1", 3, "alias", 1), J("H_C06_divpat", o, "n", 2, "m", 4, "v0", 5, "v1", 3, "alias", 3))
			}
			return jobs
		},
		Bounds: map[string]string{
			"quick":    "dec.mul: schoolbook 1x1..4x4 words, Karatsuba (threshold variable lowered to 2) at 2x2; dec.sqr: 1-3 words via mul10WW/decBasicMul, decBasicSqr (threshold lowered) at 2 words; dec.div: dividend shorter than divisor, single-word divisors with 1-3 word dividends (divW/div10VWW), and 2- and 3-word divisors taken from a list of extremal patterns (top word D/2, D/2+1, D-1, 7e18; lower words D-1, 0, 1, ...) with ARBITRARY dividends of up to one more word than the divisor + 1 (divLarge scaling, divBasic quotient-digit estimation, correction loop, add-back, un-scaling), also with the quotient or remainder receiver aliased to the divisor or the dividend; threshold independence at 2x2. Helpers: decAddAt (z += x*D^i with carry through one or more upper words, given the sum fits) at 7 shapes, digit/sticky at 19 (words, position) pairs incl. positions at and beyond word boundaries, digits/trailingZeroDigits for 1-2 words, shl/shr of 1-2 words by {0,1,18,19,20,38} digits into fresh, identical and longer stale receivers. All word values (< 10^19), including whole-word runs of 0s and 9s.",
			"thorough": "dec.mul up to 6x6 schoolbook and 3x2 Karatsuba incl. the unbalanced loop (3x3 with the lowered threshold does not finish within 50 minutes and is not registered); decBasicSqr at 3 words; divisors of 1 word with 4-word dividends.",
		},
		Outside: []string{
			"dec.div with SYMBOLIC divisors of two or more words: the obligations come back unknown (no loop-head invariant cuts, DESIGN 2.4); multi-word divisors are covered only for the concrete extremal patterns listed in the bounds. Consequence: C01's Quo jobs with symbolic multi-word divisors rest on the dec.div contract as an assumption. divRecursive (threshold constant 100) is not reached.",
			"operand sizes at the real tuning thresholds (30/10/50/100 words): the algorithms are covered structurally by lowering the threshold variables",
		},
		Assumptions: []string{"operands are normalised decs with words below 10^19", "kernel contracts decDigits64, magic.div, div10W_g proved by C07's check", archNote},
		LevelText:   "Bounded symbolic model checking at the natural-number layer: value(z) == value(x)*value(y) (expanded into word products, the same monomials the kernels produce), squares likewise, u == q*v + r with 0 <= r < v for one-word divisors; every output word below the base and normalised; no panic. These identities are the contracts that C01/C02 use for multi-word Mul/Quo.",
		LevelNote:   "Partial: multi-word divisors only for concrete extremal patterns. " + trusted,
		Timeout:     map[string]time.Duration{"quick": 300 * time.Second, "thorough": 600 * time.Second},
	})
}
