package props

import "verif/engine/sym"

func forms3() []int64 { return []int64{0, 1, 2} }

func init() {
	Register(&PropDef{
		ID: "C16", Level: "model_checking", Contracts: "default", DesignRef: "DESIGN.md section 5, C16",
		LevelText: "Bounded symbolic model checking of the real Cmp/ucmp/ord/Sign/Signbit/IsZero/IsInf code: for every form-class pair and every pair of mantissa lengths in the bound the solver proves Cmp equal to the sign of the exact difference for ALL word values, signs, exponents, precisions and modes; antisymmetry and transitivity are proved on symbolic pairs/triples. This is the right level because the code is loop-bounded by the mantissa length and purely linear.",
		LevelNote: "Assumes operands satisfy the representation invariant (C08). Trusted: go/ssa, gosym's instruction semantics and Int printer, z3, the 40-line reference specCmp. Bounded by mantissa length (see evidence.bounds).",
		Jobs: func(tier string) []*sym.Job {
			maxW := int64(3)
			if tier == "thorough" {
				maxW = 5
			}
			var jobs []*sym.Job
			for _, fx := range forms3() {
				for _, fy := range forms3() {
					wxs, wys := []int64{1}, []int64{1}
					if fx == 1 {
						wxs = seq(1, maxW)
					}
					if fy == 1 {
						wys = seq(1, maxW)
					}
					for _, wx := range wxs {
						for _, wy := range wys {
							jobs = append(jobs, &sym.Job{Pkg: "decimal", Harness: "H_C16_cmp", Cfg: map[string]int64{"fx": fx, "fy": fy, "wx": wx, "wy": wy}})
						}
					}
				}
			}
			for _, w := range seq(1, maxW-1) {
				jobs = append(jobs, &sym.Job{Pkg: "decimal", Harness: "H_C16_trans", Cfg: map[string]int64{"wx": w, "wy": (w % (maxW - 1)) + 1, "wz": ((w + 1) % (maxW - 1)) + 1}})
			}
			return jobs
		},
		Bounds: map[string]string{
			"quick":    "all 9 form-class pairs; finite operands of 1..3 words each (all length pairs); every word value, both signs, full int32 exponents, arbitrary prec/mode/acc; transitivity on finite triples of 1..2 words",
			"thorough": "as quick with 1..5 words each; transitivity triples 1..4 words",
		},
		Assumptions: []string{
			"operands satisfy the representation invariant Inv (DESIGN A.1): words < 1e19, top word >= 1e18",
			"executed build configuration: decimal_pure_go math_big_pure_go (assembly bridged by C07)",
			"reference: specCmp in harness/decimal/c16_cmp.go (exact integers)",
		},
		Outside: []string{"mantissas longer than the stated word count (the ucmp loop body is the same for every index)"},
	})
}

func seq(a, b int64) []int64 {
	var r []int64
	for i := a; i <= b; i++ {
		r = append(r, i)
	}
	return r
}
