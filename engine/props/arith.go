package props

import (
	"time"

	"verif/engine/sym"
)

// J builds a job; kv is a flat list key, value, key, value ...
func J(harness string, obl []string, kv ...interface{}) *sym.Job {
	cfg := map[string]int64{}
	for i := 0; i+1 < len(kv); i += 2 {
		switch v := kv[i+1].(type) {
		case int:
			cfg[kv[i].(string)] = int64(v)
		case int64:
			cfg[kv[i].(string)] = v
		case int32:
			cfg[kv[i].(string)] = int64(v)
		}
	}
	return &sym.Job{Pkg: "decimal", Harness: harness, Cfg: cfg, Obl: obl}
}

// always-on obligations: reference-model side conditions, kernel preconditions, unexpected panics
var common = []string{"ref.", "C07.pre", "C06.pre", "nopanic", "C04.nopanic", "C04.errnan"}

func obl(ids ...string) []string { return append(append([]string{}, ids...), common...) }

const natContracts = "decDigits64,magic.div,div10W_g,dec.mul,dec.sqr,dec.div"

const archNote = "Executed build configuration: decimal_pure_go math_big_pure_go (the default amd64 build differs only in the kernel wrappers, bridged by C07); counterexamples are replayed on both builds."
const trusted = "Trusted: go/ssa's translation, gosym's instruction semantics and Int printer (digit-slice encoding of div/mod by constants), z3, the reference model roundRef (harness/decimal/roundref.go, 90 lines)."
const contractNote = "Callee summaries used: decDigits64, magic.div, div10W_g (each proved against its real body by C07's check); jobs marked 'nat' additionally replace dec.mul/dec.sqr/dec.div by their value contracts, which C06 proves from the real bodies."

// withContracts marks a job as using the natural-number contracts.
func nat(j *sym.Job) *sym.Job { j.Contracts = natContracts; return j }

type cell struct{ wx, wy, d, p int }

func addsubCells(tier string) []cell {
	cs := []cell{{1, 1, 0, 19}, {1, 1, 1, 19}, {1, 1, -18, 10}, {1, 1, 19, 19}, {1, 1, 20, 5}, {1, 1, -39, 19}, {2, 1, -1, 20},
		// operands that do not overlap (the smaller one only feeds the sticky bit), precision one below / at a word boundary
		{1, 1, 19, 18}, {1, 1, 30, 18}, {2, 1, 19, 37}, {1, 2, 38, 18}}
	if tier == "thorough" {
		cs = append(cs, cell{1, 2, 19, 38}, cell{2, 2, 0, 38}, cell{2, 2, 7, 21}, cell{2, 1, 18, 1}, cell{1, 2, -20, 37}, cell{2, 2, -38, 19},
			cell{3, 1, 0, 40}, cell{3, 2, -5, 30}, cell{1, 1, 5, 1}, cell{1, 1, -1, 18}, cell{1, 1, 38, 2}, cell{2, 1, 37, 39})
	}
	return cs
}

func arithJobs(tier string, o []string, receiverVariants bool) []*sym.Job {
	var jobs []*sym.Job
	// single-operand rounding
	sp := [][2]int{{1, 1}, {1, 18}, {2, 19}, {2, 20}, {2, 37}, {3, 39}}
	if tier == "thorough" {
		for w := 1; w <= 3; w++ {
			for p := 1; p < 19*w; p += 4 {
				sp = append(sp, [2]int{w, p})
			}
		}
		sp = append(sp, [2]int{4, 58}, [2]int{4, 3})
	}
	for _, c := range sp {
		jobs = append(jobs, J("H_C01_setprec", o, "w", c[0], "p", c[1]))
	}
	for which := 0; which <= 2; which++ {
		jobs = append(jobs, J("H_C01_set", o, "which", which, "w", 1, "p", 5), J("H_C01_set", o, "which", which, "w", 2, "p", 19),
			J("H_C01_set", o, "which", which, "fx", 0, "p", 5), J("H_C01_set", o, "which", which, "fx", 2, "p", 5))
	}
	// zero operand passing a finite one through Add/Sub (Sub(0,y) must negate before rounding)
	for op := 0; op <= 1; op++ {
		jobs = append(jobs, J("H_C04_binary", o, "op", op, "fx", 0, "fy", 1, "p", 5), J("H_C04_binary", o, "op", op, "fx", 1, "fy", 0, "p", 5))
	}
	for _, c := range addsubCells(tier) {
		for op := 0; op <= 1; op++ {
			jobs = append(jobs, J("H_C01_addsub", o, "op", op, "wx", c.wx, "wy", c.wy, "d", c.d, "p", c.p))
		}
	}
	// Mul: real bodies at one word, value contract above
	for _, p := range []int{1, 19, 38} {
		jobs = append(jobs, J("H_C01_mul", o, "wx", 1, "wy", 1, "p", p))
	}
	jobs = append(jobs, nat(J("H_C01_mul", o, "wx", 2, "wy", 2, "p", 38)), nat(J("H_C01_mul", o, "wx", 2, "wy", 1, "p", 20)))
	// concrete multiplier mantissas: the product is linear in x (real multiplication code)
	jobs = append(jobs, J("H_C01_mul", o, "wx", 1, "wy", 1, "p", 19, "ypat0", 8), J("H_C01_mul", o, "wx", 2, "wy", 2, "p", 25, "ypat0", 1, "ypat1", 8))
	jobs = append(jobs, nat(J("H_C01_quo", o, "wx", 1, "wy", 1, "p", 19)), nat(J("H_C01_quo", o, "wx", 2, "wy", 2, "p", 5)),
		// dividend longer than precision+divisor need (no zero extension; surplus low words feed the sticky bit)
		nat(J("H_C01_quo", o, "wx", 3, "wy", 1, "p", 5)), nat(J("H_C01_quo", o, "wx", 4, "wy", 2, "p", 3)))
	if tier == "thorough" {
		jobs = append(jobs, J("H_C01_mul", o, "wx", 2, "wy", 1, "p", 20), J("H_C01_mul", o, "wx", 1, "wy", 1, "same", 1, "p", 19),
			nat(J("H_C01_mul", o, "wx", 3, "wy", 3, "p", 20)), nat(J("H_C01_mul", o, "wx", 3, "wy", 2, "p", 95)), nat(J("H_C01_mul", o, "wx", 2, "wy", 2, "p", 1)),
			nat(J("H_C01_quo", o, "wx", 2, "wy", 1, "p", 20)), nat(J("H_C01_quo", o, "wx", 2, "wy", 2, "p", 38)), nat(J("H_C01_quo", o, "wx", 1, "wy", 2, "p", 40)),
			nat(J("H_C01_quo", o, "wx", 3, "wy", 2, "p", 19)), nat(J("H_C01_quo", o, "wx", 1, "wy", 3, "p", 1)),
			J("H_C01_quo", o, "wx", 1, "wy", 1, "p", 19))
	}
	return jobs
}

func init() {
	arithBounds := map[string]string{
		"quick":    "SetPrec: mantissa 1-3 words, p in {1,18,19,20,37,39}; Set/Neg/Abs: 1-2 words + zero/inf; Add/Sub: (wx,wy,digit alignment d,p) in {(1,1,0,19),(1,1,1,19),(1,1,-18,10),(1,1,19,19),(1,1,20,5),(1,1,-39,19),(2,1,-1,20),(1,1,19,18),(1,1,30,18),(2,1,19,37),(1,2,38,18)}; Mul 1x1 words (real body) p in {1,19,38}, 2x2 and 2x1 words via the dec.mul contract, 1x1 and 2x2 words (real body) with a concrete multiplier mantissa; Quo 1/1, 2/2, 3/1 and 4/2 words (the last two with a dividend longer than the precision requires) via the dec.div contract. Every cell: all word values, both signs, six modes, full int32 exponent range (overflow/underflow edges included), fresh or dirty receiver as noted.",
		"thorough": "as quick plus SetPrec for every p = 1,5,9,... below 19w (w <= 3) and 4 words; 12 more Add/Sub alignment cells up to 3 words; Mul 2x1 real body, x*x, 3x3/3x2 via contract; Quo up to 3/2 words via contract and 1/1 words with the real division code.",
	}
	arithOutside := []string{
		"operands wider than the stated word counts; alignments other than the listed digit offsets (the library physically shifts by d digits, so other offsets execute the same code with other constants)",
		"precisions near MaxPrec (allocation size)",
		"for jobs using the dec.mul / dec.div contracts the long multiplication/division code itself is C06's obligation",
	}
	Register(&PropDef{
		ID: "C01", Level: "model_checking", Contracts: "default", DesignRef: "DESIGN.md 5 (C01), A.2",
		Jobs:        func(tier string) []*sym.Job { return arithJobs(tier, obl("C01."), false) },
		Bounds:      arithBounds,
		Outside:     arithOutside,
		Assumptions: []string{"operands satisfy the representation invariant Inv (A.1)", archNote, contractNote, "known finding KF-fma-product-range does not concern these operations"},
		LevelText:   "Bounded symbolic model checking of the real Add/Sub/Mul/Quo/Set/SetPrec/Neg/Abs code: for each shape cell (word counts, digit alignment, precision) the solver proves that the receiver equals roundRef(exact result) for ALL word values, signs, rounding modes and exponents; a failed obligation yields a concrete input that is replayed on both builds.",
		LevelNote:   trusted + " " + archNote + " " + contractNote,
		Timeout:     map[string]time.Duration{"quick": 300 * time.Second, "thorough": 300 * time.Second},
	})
	Register(&PropDef{
		ID: "C02", Level: "model_checking", Contracts: "default", DesignRef: "DESIGN.md 5 (C02)",
		Jobs: func(tier string) []*sym.Job {
			// the value obligations run first on each path: the accuracy proof builds on them
			o := obl("C01.", "C02.", "C14.value", "C20.value", "C20.setmantexp", "C03.")
			jobs := arithJobs(tier, o, false)
			for which := 0; which <= 2; which++ {
				jobs = append(jobs, J("H_C14_setint64", o, "which", which, "p", 0), J("H_C14_setint64", o, "which", which, "p", 5))
			}
			jobs = append(jobs, J("H_C14_setint", o, "n", 0, "p", 0), J("H_C14_setint", o, "n", 1, "p", 0), J("H_C14_setint", o, "n", 1, "p", 5),
				J("H_C20_mantexp", o, "fx", 1, "w", 1), J("H_C20_mantexp", o, "fx", 1, "w", 2), J("H_C20_mantexp", o, "fx", 0), J("H_C20_mantexp", o, "fx", 2),
				J("H_C03_fma", o, "d", 0, "p", 19))
			if tier == "thorough" {
				jobs = append(jobs, J("H_C14_setint", o, "n", 2, "p", 0), J("H_C14_setint", o, "n", 2, "p", 20))
			}
			return jobs
		},
		Bounds:      map[string]string{"quick": arithBounds["quick"] + " Plus setters: SetInt64/SetUint64/NewDecimal (all 64-bit arguments, NewDecimal exponent |e| < 2^40), SetInt of 0-1 binary words, SetMantExp/MantExp (1-2 words, every int64 exponent argument), FMA 1x1+1 words aligned.", "thorough": arithBounds["thorough"] + " Plus SetInt of 2 binary words. (FMA with d=-19, p=38 ended with concretisations the solver could not bound - UNWIND - and is not registered.)"},
		Outside:     append(arithOutside, "SetRat and base-10 Parse/SetString/UnmarshalText accuracy (Parse: see C12)", "FMA inputs inside the known finding KF-fma-product-range"),
		Assumptions: []string{"operands satisfy Inv (A.1)", archNote, contractNote},
		LevelText:   "Same symbolic runs as C01 with the accuracy obligations enabled: Acc() == sign(stored - exact), Exact iff nothing lost, including overflow to Inf and underflow to 0; plus the integer setters, SetMantExp and FMA.",
		LevelNote:   trusted + " " + archNote,
		Timeout:     map[string]time.Duration{"quick": 300 * time.Second, "thorough": 300 * time.Second},
	})
}
