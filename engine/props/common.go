// Package props holds the property checks: grids of jobs per property, the
// check driver, replay and evidence writing.
package props

import (
	"encoding/json"
	"fmt"
	"io"
	"os"
	"path/filepath"
	"sort"
	"strings"

	"verif/engine/sym"
)

func VerifDir() string {
	if d := os.Getenv("VERIF_DIR"); d != "" {
		return d
	}
	return "/verif"
}

func RepoDir() string {
	if d := os.Getenv("VERIF_REPO"); d != "" {
		return d
	}
	return "/repo"
}

const PureTags = "verif decimal_pure_go math_big_pure_go"

func DefaultLoad() sym.LoadOptions {
	return sym.LoadOptions{Repo: RepoDir(), HarnessDir: filepath.Join(VerifDir(), "harness"), Tags: PureTags}
}

func SetContracts(x *sym.Exec, spec string) {
	switch spec {
	case "none":
		return
	case "default", "":
		for _, c := range sym.DefaultContracts {
			x.Contracts[c] = true
		}
	default:
		for _, c := range strings.Split(spec, ",") {
			x.Contracts[c] = true
		}
	}
}

func PrintJobResult(w io.Writer, r *sym.JobResult, detail bool) {
	proved, violated, unknown, trivial := 0, 0, 0, 0
	byID := map[string][3]int{}
	msByID := map[string]int64{}
	for _, o := range r.Obls {
		c := byID[o.ID]
		msByID[o.ID] += o.Millis
		switch o.Status {
		case "proved":
			proved++
			c[0]++
			if o.Trivial {
				trivial++
			}
		case "violated":
			violated++
			c[1]++
		default:
			unknown++
			c[2]++
		}
		byID[o.ID] = c
	}
	fmt.Fprintf(w, "JOB %s: paths=%d infeasible=%d obligations=%d proved=%d (trivial %d) violated=%d unknown=%d queries=%d solver=%.2fs steps=%d decisions=%d merged=%d unkfeas=%d wall=%dms\n",
		r.Job.Label(), r.Paths, r.Infeasible, len(r.Obls), proved, trivial, violated, unknown, r.Stats.Queries, float64(r.Stats.SolverNS)/1e9, r.Steps, r.Decisions, r.Merged, r.UnknownFeas, r.WallMS)
	if detail {
		ids := make([]string, 0, len(byID))
		for id := range byID {
			ids = append(ids, id)
		}
		sort.Strings(ids)
		for _, id := range ids {
			c := byID[id]
			fmt.Fprintf(w, "   %-28s proved=%d violated=%d unknown=%d  solver_ms=%d\n", id, c[0], c[1], c[2], msByID[id])
		}
		kn := map[string]int{}
		for _, o := range r.Obls {
			if o.Known != "" {
				kn[o.Known+" "+o.ID]++
			}
		}
		for k, v := range kn {
			fmt.Fprintf(w, "   known-finding %s: %d\n", k, v)
		}
		for k, v := range r.Reached {
			fmt.Fprintf(w, "   reach %-22s %d\n", k, v)
		}
		n := 0
		for _, o := range r.Obls {
			if o.Status == "unknown" {
				fmt.Fprintf(w, "   UNKNOWN %s %s %dms path=%s\n", o.ID, o.Where, o.Millis, o.PathDesc)
			}
			if o.Status == "violated" && o.Known != "" {
				continue
			}
			if o.Status == "violated" && n < 5 {
				fmt.Fprintf(w, "   VIOLATED %s %s model=%v\n", o.ID, o.Where, o.Model)
				n++
			}
		}
	}
	for _, e := range r.Errors {
		fmt.Fprintf(w, "   ERROR %s\n", e)
	}
}




func SelfcheckMain(args []string) int {
	l, err := sym.Load(DefaultLoad())
	if err != nil {
		fmt.Fprintln(os.Stderr, "selfcheck: load failed:", err)
		return 2
	}
	fmt.Printf("selfcheck: loaded /repo with harness overlay in %v; %d harness functions\n", l.LoadTime, len(harnessNames(l, "decimal"))+len(harnessNames(l, "context")))
	// translator validation: a fully concrete harness over the real code must evaluate, in the
	// executor, exactly as the native build does
	x := sym.NewExec(l)
	SetContracts(x, "none")
	job := &sym.Job{Pkg: "decimal", Harness: "H_self_concrete", Cfg: map[string]int64{}}
	res := x.RunJobs([]*sym.Job{job}, 1)[0]
	bad := []Violation{}
	for _, o := range res.Obls {
		if o.Status != "proved" {
			bad = append(bad, Violation{Property: "selfcheck", Harness: job.Harness, Pkg: "decimal", Cfg: job.Cfg, Obligation: o.ID, Values: map[string]string{}})
		}
	}
	if len(res.Errors) > 0 || res.Paths != 1 {
		fmt.Println("selfcheck: executor failed on the concrete harness:", res.Errors)
		return 2
	}
	if len(bad) == 0 {
		fmt.Printf("selfcheck: concrete translator validation ok (%d SSA instructions of the real code, %d assertions)\n", res.Steps, len(res.Obls))
		return selfcheckRace(l)
	}
	// the executor disagrees with the recorded expectations: does the native build disagree too
	// (the library changed) or only the executor (a translator bug)?
	work := filepath.Join(VerifDir(), ".work", "selfcheck")
	os.MkdirAll(work, 0o755)
	defer os.RemoveAll(work)
	reps := selectForReplay(bad, 100)
	runReplays("selfcheck", l, reps, work)
	mismatch := false
	for _, v := range reps {
		native := false
		for _, r := range v.Confirmed {
			if strings.HasPrefix(r, "FAIL") {
				native = true
			}
		}
		if !native {
			fmt.Printf("selfcheck: TRANSLATOR MISMATCH on %s: the executor fails it, the native build passes (%v)\n", v.Obligation, v.Confirmed)
			mismatch = true
		} else {
			fmt.Printf("selfcheck: note: %s fails natively as well (the library's output changed); executor and native build agree\n", v.Obligation)
		}
	}
	if mismatch {
		return 2
	}
	return 0
}

// selfcheckRace: the race-mode replay (C18) must be silent on the unchanged tree, otherwise a
// race caused by the harness itself could "confirm" a confinement counterexample.
func selfcheckRace(l *sym.Loaded) int {
	work := filepath.Join(VerifDir(), ".work", "selfcheck")
	os.MkdirAll(work, 0o755)
	defer os.RemoveAll(work)
	rc := 0
	for i, rf := range []replayFile{
		{Property: "C18", Harness: "H_C18_op", Pkg: "decimal", Cfg: map[string]int64{"op": 4, "wx": 2, "bst": 2}, Values: map[string]string{"x.m0": "5", "x.m1": "1000000000000000000"}},
		{Property: "C18", Harness: "H_C18_op", Pkg: "decimal", Cfg: map[string]int64{"op": 3}, Values: map[string]string{"x.m0": "1000000000000000007", "y.m0": "3000000000000000000"}},
		{Property: "C18", Harness: "H_C18_sqrtreal", Pkg: "decimal", Cfg: map[string]int64{"p": 40, "v": 2}, Values: map[string]string{}},
	} {
		b, _ := json.MarshalIndent(rf, "", " ")
		f := filepath.Join(work, fmt.Sprintf("race%d.json", i))
		os.WriteFile(f, b, 0o644)
		r := raceReplay(l, f, work)
		if r != "PASS" {
			fmt.Printf("selfcheck: race-mode replay of %s %v is not silent on this tree: %s\n", rf.Harness, rf.Cfg, r)
			rc = 2
		}
	}
	if rc == 0 {
		fmt.Println("selfcheck: race-mode replay silent on 3 sample operations (harness and library race-free when operands are shared)")
	}
	return rc
}
