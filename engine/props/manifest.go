package props

import (
	"encoding/json"
	"fmt"
	"os"
	"sort"
)

// NotApplicable lists the properties (or none) that are not claimed at all.
var NotApplicable = map[string]string{
	"C15": "not claimed: SetFloat/Float/Float32/Float64 compute inside math/big.Float, whose numeric code is not encoded, and SetFloat64's scaling by a 2**n Decimal needs pow2's precision-limited products; symbolic float64 arithmetic is outside the solvers' reach here (DESIGN.md sections 3 and 7). Only the special-value dispatch of SetFloat64/SetFloat (+-0, +-Inf, NaN, independence of the previous receiver) is decided, under C04 and C10 (harness H_C04_setfloat); the numeric statement of C15 is not",
}

const defaultTechnique = "bounded symbolic execution of go/ssa (own executor gosym: concrete shapes, symbolic scalars) + SMT (z3, Int encoding with explicit wrap-around); counterexamples replayed natively on both builds"

func ManifestMain(args []string) int {
	type level struct {
		Category  string `json:"category"`
		Text      string `json:"text"`
		DesignRef string `json:"design_ref,omitempty"`
	}
	type check struct {
		PropertyID   string `json:"property_id"`
		QuickCmd     string `json:"quick_cmd"`
		ThoroughCmd  string `json:"thorough_cmd,omitempty"`
		EvidenceFile string `json:"evidence_file"`
		ReplayCmd    string `json:"replay_cmd_template"`
		Engine       string `json:"engine"`
		Level        level  `json:"level_claimed"`
		LevelNote    string `json:"level_note"`
		Technique    string `json:"technique"`
	}
	type na struct {
		PropertyID string `json:"property_id"`
		Reason     string `json:"reason"`
	}
	m := map[string]interface{}{
		"version":   1,
		"setup_cmd": "cd /verif/engine && GOFLAGS=-mod=mod GOPROXY=off GOSUMDB=off GOTOOLCHAIN=local go build -o ../bin/gosym ./cmd/gosym && ../bin/gosym selfcheck",
		"hooks": map[string]interface{}{
			"guard":            "verif",
			"enable":           "harness files (build tag verif) are injected in-package through go/packages Overlay (symbolic run) and go test -overlay (native replay); nothing is written into /repo",
			"baseline_off_cmd": "cd /repo && go test -json -vet=off -count=1 -timeout 25m ./...",
			"source_commits":   []string{},
			"add_only":         true,
		},
		"engines": []map[string]interface{}{
			{"name": "gosym", "path": "engine/", "kind_free_text": "symbolic executor for go/ssa + Plan 9 amd64 assembly (p9sym) emitting SMT-LIB2 to z3; written for this task"},
		},
		"notes": "Every check regenerates its encoding from /repo's working tree. Exit codes: 0 held within the stated bounds; 1 VIOLATION (replayed natively); 2 ENGINE-MISMATCH (solver model did not reproduce: broken check); 3 INCONCLUSIVE (unknown/timeout/unwind on a registered bound). See DESIGN.md.",
	}
	ids := make([]string, 0, len(Registry))
	for id := range Registry {
		ids = append(ids, id)
	}
	sort.Strings(ids)
	var checks []check
	for _, id := range ids {
		d := Registry[id]
		if _, skip := NotApplicable[id]; skip {
			continue
		}
		tech := d.Technique
		if tech == "" {
			tech = defaultTechnique
		}
		checks = append(checks, check{
			PropertyID:   id,
			QuickCmd:     "./check " + id + " --tier quick",
			ThoroughCmd:  "./check " + id + " --tier thorough",
			EvidenceFile: "evidence/" + id + ".json",
			ReplayCmd:    "./check " + id + " --replay {path}",
			Engine:       "gosym",
			Level:        level{Category: d.Level, Text: d.LevelText, DesignRef: d.DesignRef},
			LevelNote:    d.LevelNote,
			Technique:    tech,
		})
	}
	m["checks"] = checks
	var nas []na
	var naIDs []string
	for id := range NotApplicable {
		naIDs = append(naIDs, id)
	}
	sort.Strings(naIDs)
	for _, id := range naIDs {
		nas = append(nas, na{id, NotApplicable[id]})
	}
	if nas == nil {
		nas = []na{}
	}
	m["not_applicable"] = nas
	b, _ := json.MarshalIndent(m, "", " ")
	fmt.Fprintln(os.Stdout, string(b))
	return 0
}
