package props

import (
	"time"

	"verif/engine/sym"
)

func init() {
	Register(&PropDef{
		ID: "C12", Level: "model_checking", Contracts: "default", DesignRef: "DESIGN.md 5 (C12), A.6",
		Jobs: func(tier string) []*sym.Job {
			o := obl("C12.", "C02.", "C08.", "C09.")
			var jobs []*sym.Job
			// templated base-10 literals, every digit symbolic
			type lit struct{ sign, ni, nf, ne, esign, p, entry int }
			lits := []lit{
				{0, 1, -1, 0, 0, 0, 0}, {2, 3, 2, 0, 0, 3, 0}, {1, 2, 0, 2, 2, 1, 0}, {0, 0, 3, 1, 1, 2, 0}, {2, 19, -1, 0, 0, 5, 0}, {0, 20, -1, 0, 0, 19, 0},
				{0, 12, 12, 3, 2, 20, 0}, {0, 1, -1, 10, 0, 5, 0}, {0, 1, -1, 10, 2, 5, 0}, {0, 2, 1, 0, 0, 0, 1}, {2, 2, 1, 1, 0, 7, 2}, {1, 3, 3, 0, 0, 4, 3},
				{0, 0, -1, 0, 0, 5, 0}, {0, 0, 0, 0, 0, 5, 0}, {2, 0, -1, 0, 0, 5, 1},
				// more digits than (prec/19+2) words hold: far-away digits still decide rounding and accuracy
				{0, 39, -1, 0, 0, 1, 0},
				// through fmt.Scanner (Scan): leading blank skipped, literal consumed, the rest left unread
				{2, 3, 2, 0, 0, 3, 4}, {0, 20, -1, 0, 0, 19, 4}, {1, 2, 0, 2, 2, 1, 4}, {0, 0, -1, 0, 0, 5, 4},
			}
			if tier == "thorough" {
				lits = append(lits, lit{0, 38, -1, 0, 0, 34, 0}, lit{0, 20, 20, 2, 1, 38, 0}, lit{2, 39, 1, 1, 2, 19, 0}, lit{0, 5, 34, 0, 0, 0, 0}, lit{0, 24, -1, 3, 0, 1, 0})
			}
			for _, l := range lits {
				jobs = append(jobs, J("H_C12_lit", o, "sign", l.sign, "ni", l.ni, "nf", l.nf, "ne", l.ne, "esign", l.esign, "p", l.p, "entry", l.entry))
			}
			// arbitrary byte strings (totality, error => nil, accepted language, detected base)
			maxL := 3
			if tier == "thorough" {
				maxL = 4
			}
			for L := 0; L <= maxL; L++ {
				for _, base := range []int{0, 10} {
					jobs = append(jobs, J("H_C12_any", o, "L", L, "base", base))
				}
				if L <= 3 {
					jobs = append(jobs, J("H_C12_any", o, "L", L, "base", 16), J("H_C12_any", o, "L", L, "base", 2), J("H_C12_any", o, "L", L, "base", 8))
				}
			}
			return jobs
		},
		Bounds: map[string]string{
			"quick":    "base-10 literals from 20 templates [sign] int-digits [. frac-digits] [e [sign] exp-digits] with up to 24 significand digits (crossing the 19-digit word boundary) and one 39-digit template at precision 1, exponents of 1-3 digits and 10-digit exponents beyond the int32 range (must be rejected), through Parse, SetString, UnmarshalText, ParseDecimal and (4 templates) Scan with a byte-slice fmt.ScanState, receiver precision {0,1,2,3,4,5,7,19,20}: every digit symbolic, value == roundRef(exact) with truthful accuracy, precision 0 -> 34. Arbitrary ASCII strings of every length 0..3 with base argument 0, 2, 8, 10, 16 (all 128^L contents symbolic): no panic, error => nil result, accepted exactly when the documented grammar (specAccepts) accepts, detected base as specified.",
			"thorough": "literals up to 40 digits; arbitrary strings of length 4 for base 0 and 10.",
		},
		Outside: []string{
			"values of base 2/8/16 literals and 'p' exponents (computed through pow2's precision-limited products; only their acceptance and panic-freedom are covered)",
			"Scan beyond the 4 literal templates (rune sizes other than 1, Token/Width plumbing)", "non-ASCII bytes (the reader is byte-oriented; bytes >= 0x80 take the same 'other character' branches)", "arbitrary strings longer than 4",
			"the grammar reference specAccepts is a re-implementation of the grammar documented for math/big.Float.Parse; it is not compared with math/big's code by the solver",
		},
		Assumptions: []string{"strings.Reader and strconv.ParseInt are executed from their SSA bodies; fmt.Errorf is opaque (returns some non-nil error)", archNote},
		LevelText:   "Bounded symbolic model checking: decimal literals with symbolic digits are proved to be stored as the exact value rounded once; fully symbolic short strings are proved to be handled totally (no panic, error with nil result or canonical value) and accepted exactly according to the documented grammar.",
		LevelNote:   trusted,
		Timeout:     map[string]time.Duration{"quick": 300 * time.Second, "thorough": 300 * time.Second},
	})
}
