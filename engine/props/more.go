package props

import (
	"time"

	"verif/engine/sym"
)

func init() {
	// ------------------------------------------------------------------ C03
	Register(&PropDef{
		ID: "C03", Level: "model_checking", Contracts: "default", DesignRef: "DESIGN.md 5 (C03)",
		Jobs: func(tier string) []*sym.Job {
			o := obl("C03.", "C04.form", "C08.", "C09.")
			var jobs []*sym.Job
			for _, c := range [][2]int{{0, 19}, {0, 5}} {
				jobs = append(jobs, J("H_C03_fma", o, "d", c[0], "p", c[1]))
			}
			jobs = append(jobs, J("H_C03_fma", o, "d", 0, "p", 5, "alias", 3), J("H_C03_fma", o, "d", 0, "p", 19, "alias", 1))
			// concrete multiplier mantissas (5000000000000000001, 1234567890123456789): x*y+u is linear in the unknowns,
			// so ties and carries deep inside the 38-digit product are within the solver's reach
			jobs = append(jobs, J("H_C03_fma", o, "d", 0, "p", 5, "ypat0", 3, "erange", 1000), J("H_C03_fma", o, "d", 0, "p", 19, "ypat0", 8, "erange", 1000), J("H_C03_fma", o, "d", 0, "p", 5, "ypat0", 3))
			// every form-class triple with a non-finite member, fresh receiver and receiver == u
			for fx := 0; fx <= 2; fx++ {
				for fy := 0; fy <= 2; fy++ {
					for fu := 0; fu <= 2; fu++ {
						if fx == 1 && fy == 1 && fu == 1 {
							continue
						}
						jobs = append(jobs, J("H_C03_fma", o, "fx", fx, "fy", fy, "fu", fu, "p", 5))
						jobs = append(jobs, J("H_C03_fma", o, "fx", fx, "fy", fy, "fu", fu, "p", 5, "alias", 3))
					}
				}
			}
			jobs = append(jobs, J("H_C03_sep", obl("C03."), "p", 19))
			if tier == "thorough" {
				jobs = append(jobs, J("H_C03_fma", o, "d", 5, "p", 10, "alias", 3))
				for _, c := range [][2]int{{5, 10}, {1, 19}, {19, 19}} {
					jobs = append(jobs, J("H_C03_fma", o, "d", c[0], "p", c[1]))
					jobs = append(jobs, J("H_C03_fma", o, "d", c[0], "p", c[1], "alias", 2))
				}
				jobs = append(jobs, J("H_C03_fma", o, "d", 0, "p", 5, "alias", 5, "zf", 1, "capx", 2))
			}
			return jobs
		},
		Witnesses: []string{"C03.separation"},
		Bounds: map[string]string{
			"quick":    "x, y, u one word each (product two words); alignment of u against the product d = 0; p in {19, 5}; receiver fresh, == x, == u; the same with a concrete multiplier mantissa (5000000000000000001 at p=5, 1234567890123456789 at p=19; exponents within +-1000, i.e. away from the known finding's region, and unrestricted); all 26 form-class triples with a zero or infinity, fresh receiver and receiver == u; all word values, signs, modes, exponents.",
			"thorough": "as quick plus d in {5,1,19} with p in {10,19}, receiver == y, dirty receiver. (u of two words ended with a concretisation the solver could not bound - UNWIND - and is not registered.)",
		},
		Outside:     []string{"wider operands", "alignments where u lies below the product's last digit (d < 0): those cells (e.g. d=-19) produce thousands of paths and a few solver timeouts and are not registered", "inputs whose intermediate product x*y leaves the int32 exponent range although x*y+u is representable: known finding KF-fma-product-range (reported as KNOWN-FINDING, every other violation is still reported)"},
		Assumptions: []string{"operands satisfy Inv (A.1)", archNote, contractNote},
		LevelText:   "Bounded symbolic model checking of the real FMA (umul at MaxPrec, then Add): the receiver equals roundRef(x*y+u) with truthful accuracy for all values in each cell; IEEE sign of exact zero sums; every special-value triple; independence from receiver aliasing. A separation witness (FMA != Add(Mul)) must be satisfiable so the single-rounding claim is not vacuous.",
		LevelNote:   trusted + " " + archNote,
		Timeout:     map[string]time.Duration{"quick": 300 * time.Second, "thorough": 300 * time.Second},
	})
	// ------------------------------------------------------------------ C04
	Register(&PropDef{
		ID: "C04", Level: "model_checking", Contracts: "default", DesignRef: "DESIGN.md 5 (C04), A.5",
		Jobs: func(tier string) []*sym.Job {
			o := obl("C04.", "C08.", "C17.nopanic")
			var jobs []*sym.Job
			for op := 0; op <= 3; op++ {
				for fx := 0; fx <= 2; fx++ {
					for fy := 0; fy <= 2; fy++ {
						if fx == 1 && fy == 1 {
							continue
						}
						jobs = append(jobs, J("H_C04_binary", o, "op", op, "fx", fx, "fy", fy, "p", 5))
						if tier == "thorough" {
							jobs = append(jobs, J("H_C04_binary", o, "op", op, "fx", fx, "fy", fy, "p", 5, "alias", 1), J("H_C04_binary", o, "op", op, "fx", fx, "fy", fy, "p", 5, "alias", 2))
						}
					}
				}
			}
			for fx := 0; fx <= 2; fx++ {
				for fy := 0; fy <= 2; fy++ {
					for fu := 0; fu <= 2; fu++ {
						if fx == 1 && fy == 1 && fu == 1 {
							continue
						}
						jobs = append(jobs, J("H_C03_fma", o, "fx", fx, "fy", fy, "fu", fu, "p", 5))
					}
				}
			}
			// binary floating-point setters on the special values (and two finite values) from every previous receiver form
			for which := 0; which <= 1; which++ {
				for cls := 0; cls <= 6; cls++ {
					if cls == 6 && which == 1 {
						continue // a big.Float cannot hold a NaN
					}
					for zf := 0; zf <= 2; zf++ {
						jobs = append(jobs, J("H_C04_setfloat", o, "cls", cls, "which", which, "zf", zf))
					}
				}
			}
			for _, fx := range []int{0, 2} {
				jobs = append(jobs, J("H_C04_tofloat", o, "fx", fx, "which", 0), J("H_C04_tofloat", o, "fx", fx, "which", 1), J("H_C04_tofloat", o, "fx", fx, "which", 2, "px", 19), J("H_C04_tofloat", o, "fx", fx, "which", 2, "px", 40))
			}
			// no other panic: the finite paths of the arithmetic, setters and decoders under the panic obligation only
			po := obl("C04.")
			for op := 0; op <= 1; op++ {
				jobs = append(jobs, J("H_C01_addsub", po, "op", op, "wx", 1, "wy", 1, "d", 0, "p", 19), J("H_C01_addsub", po, "op", op, "wx", 2, "wy", 1, "d", -1, "p", 20))
			}
			jobs = append(jobs, J("H_C01_mul", po, "wx", 1, "wy", 1, "p", 19), J("H_C01_setprec", po, "w", 2, "p", 20),
				J("H_C20_setbits", po, "n", 2, "lz", 0, "p", 0), J("H_C20_setbits", po, "n", 3, "lz", 1, "p", 5), J("H_C20_setbits", po, "n", 0, "lz", 0, "p", 0),
				J("H_C20_mantexp", po, "fx", 1, "w", 1), J("H_C14_setint64", po, "which", 2, "p", 0), J("H_C14_setint", po, "n", 1, "p", 0),
				J("H_C17_bytes", po, "L", 3), J("H_C17_bytes", po, "L", 9), J("H_C17_bytes", po, "L", 18),
				J("H_C06_mul", po, "m", 2, "n", 2), J("H_C06_div", po, "m", 2, "n", 1), J("H_C05_sqrt", po, "fx", 0), J("H_C05_sqrt", po, "fx", 2), J("H_C05_sqrt", po, "fx", 1, "neg", 1), J("H_C05_sqrt", po, "fx", 2, "neg", 1), J("H_C05_sqrt", po, "fx", 1, "stubs", 1))
			return jobs
		},
		Bounds: map[string]string{
			"quick":    "Add/Sub/Mul/Quo: all 8 form-class pairs with a zero or infinity (finite member: one word, any value) x dirty receiver; FMA: all 26 special triples; Sqrt of zeros, +Inf, negative values; SetFloat64/SetFloat of +-0, +-Inf, NaN, 1.5, -0.1 from every previous receiver form; Float64/Float32/Float of zeros and infinities; no-other-panic: finite Add/Sub (1-2 words), Mul, SetPrec, SetBitsExp (incl. zero-precision receiver and empty slice), MantExp/SetMantExp, NewDecimal, SetInt, GobDecode of 3/9/18 arbitrary bytes, dec.mul 2x2, dec.div 2/1.",
			"thorough": "as quick plus receiver == x and receiver == y for every special pair.",
		},
		Outside:     []string{"SetFloat64(NaN) and SetFloat: see C15", "panic freedom of the long division code for divisors of >= 2 words (C06) and of text conversion (C11-C13)", "FMA inside KF-fma-product-range (spurious ErrNaN when the intermediate product overflows and u is an infinity of the other sign)"},
		Assumptions: []string{"operands satisfy Inv (A.1)", archNote},
		LevelText:   "Bounded symbolic model checking: for every special-value combination the result form/sign equals the IEEE-754 table written out in the harness, a panic occurs iff the combination is invalid and then has dynamic type ErrNaN with the receiver still satisfying Inv; run-time panics (index, slice, nil, divide) and the library's internal string panics are reachability queries on every explored path.",
		LevelNote:   trusted + " The executor generates run-time panics from the SSA instruction semantics (bounds, nil, division, type assertion).",
		Timeout:     map[string]time.Duration{"quick": 300 * time.Second, "thorough": 300 * time.Second},
	})
	// ------------------------------------------------------------------ C08
	Register(&PropDef{
		ID: "C08", Level: "model_checking", Contracts: "default", DesignRef: "DESIGN.md 5 (C08), A.1",
		Jobs: func(tier string) []*sym.Job {
			o := obl("C08.", "C17.inv", "C17.nopanic")
			var jobs []*sym.Job
			for zf := 0; zf <= 2; zf++ {
				for op := 0; op <= 1; op++ {
					jobs = append(jobs, J("H_C01_addsub", o, "op", op, "wx", 1, "wy", 1, "d", 0, "p", 19, "alias", 5, "zf", zf, "wz", 2, "capx", 1))
				}
				jobs = append(jobs, J("H_C01_mul", o, "wx", 1, "wy", 1, "p", 19, "alias", 5, "zf", zf, "wz", 1, "capx", 2),
					nat(J("H_C01_quo", o, "wx", 1, "wy", 1, "p", 5, "alias", 5, "zf", zf, "wz", 3)),
					J("H_C01_set", o, "which", 0, "w", 2, "p", 5, "alias", 5, "zf", zf, "wz", 1),
					J("H_C14_setint64", o, "which", 0, "p", 5, "zf", zf, "capx", 2),
					J("H_C20_setbits", o, "n", 2, "lz", 0, "p", 5, "zf", zf),
					J("H_C17_roundtrip", o, "fx", 1, "w", 2, "pz", 5, "zf", zf))
			}
			jobs = append(jobs, J("H_C01_addsub", o, "op", 1, "wx", 1, "wy", 1, "d", 0, "p", 19, "alias", 1), J("H_C01_addsub", o, "op", 0, "wx", 2, "wy", 1, "d", -1, "p", 20),
				J("H_C01_setprec", o, "w", 2, "p", 20), J("H_C01_setprec", o, "w", 3, "p", 1), J("H_C20_mantexp", o, "fx", 1, "w", 2, "mf", 1, "capx", 1),
				J("H_C03_fma", o, "d", 0, "p", 19), J("H_C14_setint", o, "n", 1, "p", 0), J("H_C08_canon", o, "w", 1), J("H_C08_canon", o, "w", 2))
			for _, L := range []int{0, 1, 2, 5, 6, 9, 10, 17, 18, 19, 26} {
				jobs = append(jobs, J("H_C17_bytes", o, "L", L))
			}
			if tier == "thorough" {
				for _, L := range []int{3, 4, 7, 8, 11, 12, 13, 14, 15, 16, 20, 21, 22, 23, 24, 25, 27, 33, 34, 42} {
					jobs = append(jobs, J("H_C17_bytes", o, "L", L))
				}
				for _, c := range addsubCells("thorough")[7:13] {
					jobs = append(jobs, J("H_C01_addsub", o, "op", 1, "wx", c.wx, "wy", c.wy, "d", c.d, "p", c.p, "alias", 5, "zf", 1, "wz", 3, "capx", 1))
				}
			}
			return jobs
		},
		Bounds: map[string]string{
			"quick":    "Inductive step from an ARBITRARY valid receiver (old form zero/finite/inf, 1-3 stale words, spare capacity with unconstrained words) and arbitrary valid operands, for Add, Sub, Mul, Quo(contract), Set, SetPrec, SetInt64, SetInt, SetBitsExp, MantExp/SetMantExp, FMA, GobDecode(valid encodings and arbitrary byte strings of 0..26 bytes): afterwards Inv holds for the receiver (or an error is returned). Operand shapes 1-2 words.",
			"thorough": "as quick plus arbitrary byte strings of every length up to 27 and 33, 34, 42; six more Add/Sub cells with dirty 3-word receivers.",
		},
		Outside:     []string{"the 'no digit beyond the precision' clause is asserted through the value obligations of C01/C02/C17 (value == p-digit reference) rather than inside invOK, whose precision is symbolic", "Parse/UnmarshalText results (C12)", "Sqrt's Newton iteration (C05)"},
		Assumptions: []string{"Inv as in DESIGN A.1; base case: the zero value satisfies Inv", archNote, contractNote},
		LevelText:   "One inductive step per operation from an arbitrary Inv-state (arbitrary old value, stale buffer contents, any aliasing in the listed classes): the operation either panics as C04 allows or leaves receiver and operands in Inv. One step from an arbitrary valid state covers call sequences of any length; equal values then expose identical digits (lemma H_C08_canon).",
		LevelNote:   trusted + " " + archNote,
		Timeout:     map[string]time.Duration{"quick": 300 * time.Second, "thorough": 300 * time.Second},
	})
	// ------------------------------------------------------------------ C09
	Register(&PropDef{
		ID: "C09", Level: "model_checking", Contracts: "default", DesignRef: "DESIGN.md 5 (C09)",
		Jobs: func(tier string) []*sym.Job {
			o := obl("C09.", "C17.roundtrip")
			var jobs []*sym.Job
			for op := 0; op <= 1; op++ {
				jobs = append(jobs, J("H_C01_addsub", o, "op", op, "wx", 1, "wy", 1, "d", 0, "p", 19),
					J("H_C01_addsub", o, "op", op, "wx", 1, "wy", 1, "d", 3, "p", 0, "p0", 1, "px", 7, "py", 12),
					J("H_C01_addsub", o, "op", op, "wx", 2, "wy", 1, "d", -1, "p", 20, "capx", 2),
					J("H_C04_binary", o, "op", op, "fx", 0, "fy", 1, "p", 5), J("H_C04_binary", o, "op", op, "fx", 2, "fy", 1, "p", 5))
			}
			jobs = append(jobs, J("H_C01_mul", o, "wx", 1, "wy", 1, "p", 19, "capx", 1), J("H_C01_mul", o, "wx", 1, "wy", 1, "p", 0, "p0", 1, "px", 3, "py", 2),
				nat(J("H_C01_quo", o, "wx", 1, "wy", 1, "p", 19)), J("H_C01_quo", o, "wx", 1, "wy", 1, "p", 5),
				// long dividend: no scratch copy of x is made, the real division must not write into it
				J("H_C01_quo", o, "wx", 3, "wy", 1, "p", 5, "capx", 2), J("H_C01_quo", o, "wx", 2, "wy", 1, "p", 1, "capx", 1),
				J("H_C03_fma", o, "d", 0, "p", 19), J("H_C03_fma", o, "d", 0, "p", 5, "alias", 3),
				J("H_C01_set", o, "which", 0, "w", 1, "p", 1, "p0", 1, "px", 7), J("H_C01_set", o, "which", 1, "w", 2, "p", 5), J("H_C01_set", o, "which", 2, "w", 1, "p", 5),
				J("H_C01_setprec", o, "w", 2, "p", 20), J("H_C14_setint64", o, "which", 0, "p", 0), J("H_C14_setint64", o, "which", 1, "p", 7), J("H_C14_setint64", o, "which", 2, "p", 0),
				J("H_C14_setint", o, "n", 0, "p", 0), J("H_C14_setint", o, "n", 0, "p", 7), J("H_C14_setint", o, "n", 1, "p", 0), J("H_C14_setint", o, "n", 1, "p", 5),
				J("H_C20_setbits", o, "n", 2, "lz", 0, "p", 0), J("H_C20_mantexp", o, "fx", 1, "w", 2), J("H_C17_roundtrip", o, "fx", 1, "w", 2, "pz", 5), J("H_C17_roundtrip", o, "fx", 1, "w", 1),
				J("H_C05_sqrt", o, "fx", 1, "w", 1, "p", 5, "stubs", 1), J("H_C05_sqrt", o, "fx", 1, "w", 2, "p0", 1, "stubs", 1), J("H_C05_sqrt", o, "fx", 0, "p", 5), J("H_C05_sqrt", o, "fx", 2, "p", 5))
			if tier == "thorough" {
				for _, c := range addsubCells("thorough")[7:] {
					jobs = append(jobs, J("H_C01_addsub", o, "op", 1, "wx", c.wx, "wy", c.wy, "d", c.d, "p", c.p, "capx", 1))
				}
			}
			return jobs
		},
		Bounds: map[string]string{
			"quick":    "Add/Sub/Mul/Quo/FMA/Set/Neg/Abs/SetPrec/SetInt64/SetUint64/NewDecimal/SetInt/SetBitsExp/MantExp/SetMantExp/GobDecode/Sqrt(1 word) with 1-2 word operands: receiver precision unchanged unless 0 (then the documented value: max operand precision, 34, digit count, x's), rounding mode unchanged (copied only by Copy/SetMantExp/MantExp/GobDecode-into-zero), and a word-for-word snapshot (fields and every word up to capacity) of each non-receiver operand unchanged.",
			"thorough": "as quick plus the thorough Add/Sub alignment cells with spare operand capacity.",
		},
		Outside:     []string{"SetFloat/SetFloat64 (C15), Parse (C12)", "Quo's operand snapshots use the real division only for one-word operands"},
		Assumptions: []string{"operands satisfy Inv (A.1)", archNote},
		LevelText:   "Bounded symbolic model checking with attribute and snapshot obligations: prec'/mode' as documented and every operand that is not the receiver bit-identical afterwards, for all values in each cell.",
		LevelNote:   trusted + " " + archNote,
		Timeout:     map[string]time.Duration{"quick": 300 * time.Second, "thorough": 300 * time.Second},
	})
	// ------------------------------------------------------------------ C10
	Register(&PropDef{
		ID: "C10", Level: "model_checking", Contracts: "default", DesignRef: "DESIGN.md 5 (C10)",
		Jobs: func(tier string) []*sym.Job {
			o := obl("C01.", "C02.", "C03.", "C08.", "C09.prec", "C09.mode", "C10.", "C04.special")
			var jobs []*sym.Job
			for op := 0; op <= 1; op++ {
				for _, al := range []int{1, 2} {
					jobs = append(jobs, J("H_C01_addsub", o, "op", op, "wx", 1, "wy", 1, "d", 0, "p", 19, "alias", al),
						J("H_C01_addsub", o, "op", op, "wx", 1, "wy", 1, "d", 3, "p", 10, "alias", al, "capx", 1),
						J("H_C01_addsub", o, "op", op, "wx", 1, "wy", 1, "d", -20, "p", 19, "alias", al))
				}
				// x and y the same variable; receiver fresh or also the same
				jobs = append(jobs, J("H_C01_addsub", o, "op", op, "wx", 1, "wy", 1, "d", 0, "p", 19, "same", 1), J("H_C01_addsub", o, "op", op, "wx", 2, "wy", 2, "d", 0, "p", 20, "same", 1, "alias", 1))
				for zf := 0; zf <= 2; zf++ {
					jobs = append(jobs, J("H_C01_addsub", o, "op", op, "wx", 1, "wy", 1, "d", 1, "p", 19, "alias", 5, "zf", zf, "wz", 3, "capx", 2))
				}
			}
			for _, al := range []int{1, 2} {
				jobs = append(jobs, J("H_C01_mul", o, "wx", 1, "wy", 1, "p", 19, "alias", al), nat(J("H_C01_quo", o, "wx", 1, "wy", 1, "p", 5, "alias", al)),
					J("H_C01_quo", obl("C08.", "C09."), "wx", 1, "wy", 1, "p", 5, "alias", al))
			}
			// real multi-word long division under aliasing: concrete extremal divisor (every product linear)
			jobs = append(jobs, J("H_C01_quo", o, "wx", 1, "wy", 2, "p", 1, "ypat0", 4, "ypat1", 2, "alias", 2), J("H_C01_quo", o, "wx", 2, "wy", 2, "p", 1, "ypat0", 4, "ypat1", 2, "alias", 1))
			// SetFloat / SetFloat64 do not depend on the receiver's previous form (concrete binary operand)
			for which := 0; which <= 1; which++ {
				for _, cls := range []int{1, 2, 4, 5} {
					for zf := 0; zf <= 2; zf++ {
						jobs = append(jobs, J("H_C04_setfloat", o, "cls", cls, "which", which, "zf", zf, "capx", 2))
					}
				}
			}
			jobs = append(jobs, J("H_C01_mul", o, "wx", 1, "wy", 1, "p", 19, "same", 1), J("H_C01_mul", o, "wx", 1, "wy", 1, "p", 19, "same", 1, "alias", 1),
				J("H_C01_mul", o, "wx", 2, "wy", 2, "p", 38, "alias", 5, "zf", 1, "wz", 1, "capx", 5),
				J("H_C03_fma", o, "d", 0, "p", 19, "alias", 1), J("H_C03_fma", o, "d", 0, "p", 5, "alias", 3), J("H_C03_fma", o, "d", 0, "p", 5, "alias", 5, "zf", 1, "capx", 2),
				J("H_C01_set", o, "which", 0, "w", 2, "p", 5, "alias", 5, "zf", 1, "wz", 3), J("H_C01_set", o, "which", 1, "w", 1, "p", 5, "alias", 1))
			if tier == "thorough" {
				for _, c := range addsubCells("thorough")[7:13] {
					for _, al := range []int{1, 2} {
						jobs = append(jobs, J("H_C01_addsub", o, "op", 1, "wx", c.wx, "wy", c.wy, "d", c.d, "p", c.p, "alias", al))
					}
				}
				jobs = append(jobs, J("H_C01_mul", o, "wx", 2, "wy", 1, "p", 20, "alias", 1), J("H_C01_mul", o, "wx", 2, "wy", 2, "p", 38, "same", 1))
			}
			return jobs
		},
		Bounds: map[string]string{
			"quick":    "Add/Sub with receiver == x, == y, x == y, z == x == y, and dirty receivers (old form zero/finite/inf, 3 stale words, spare capacity with unconstrained words), alignments {0,3,-20,1}; Mul with receiver == x / == y / x == y; Quo with receiver == x / == y (value through the dec.div contract; Inv and attributes with the real one-word division); Mul into a short dirty buffer; FMA with receiver == x, == u, dirty; Set/Neg aliasing. The obligation is equality with the value-level reference, which does not mention the receiver's previous state or the aliasing pattern.",
			"thorough": "as quick plus six more Add/Sub cells under both aliasings, Mul 2x1 aliased, 2x2 squaring.",
		},
		Outside:     []string{"operands wider than 2 words; Quo aliasing with multi-word divisors (dec.div contract used there)"},
		Assumptions: []string{"operands satisfy Inv (A.1); aliased receivers satisfy it as operands", archNote},
		LevelText:   "Relational property discharged against a common reference: for every aliasing class and every dirty receiver state in the bound the result equals the reference value computed from the operand values captured before the call, so all aliasing classes agree with each other for all values.",
		LevelNote:   trusted + " " + archNote,
		Timeout:     map[string]time.Duration{"quick": 300 * time.Second, "thorough": 300 * time.Second},
	})
	// ------------------------------------------------------------------ C14
	Register(&PropDef{
		ID: "C14", Level: "model_checking", Contracts: "default", DesignRef: "DESIGN.md 5 (C14)",
		Jobs: func(tier string) []*sym.Job {
			o := obl("C14.", "C02.", "C09.prec")
			var jobs []*sym.Job
			for which := 0; which <= 2; which++ {
				for _, p := range []int{0, 5, 19, 20} {
					jobs = append(jobs, J("H_C14_setint64", o, "which", which, "p", p))
				}
			}
			jobs = append(jobs, J("H_C14_setint", o, "n", 0, "p", 0), J("H_C14_setint", o, "n", 0, "p", 7), J("H_C14_setint", o, "n", 1, "p", 0), J("H_C14_setint", o, "n", 1, "p", 5), J("H_C14_setint", o, "n", 2, "p", 0))
			for _, w := range []int{1, 2} {
				for _, e := range []int{-1, 0, 1, 5, 19, 20, 21, 38, 40} {
					jobs = append(jobs, J("H_C14_toint", o, "w", w, "e", e))
				}
			}
			jobs = append(jobs, J("H_C14_toint", o, "fx", 0), J("H_C14_toint", o, "fx", 2))
			// Rat: exactly x (cross-multiplied), Exact; big.Rat's gcd reduction modelled as the identity
			for _, w := range []int{1, 2} {
				for _, e := range []int{-40, -4, 0, 3, 18, 19, 20, 25, 38, 45} {
					jobs = append(jobs, J("H_C14_rat", o, "w", w, "e", e))
				}
			}
			jobs = append(jobs, J("H_C14_rat", o, "fx", 0), J("H_C14_rat", o, "fx", 2), J("H_C14_rat", o, "e", 0, "dirty", 1), J("H_C14_rat", o, "e", 25, "dirty", 1), J("H_C14_rat", o, "fx", 0, "dirty", 1))
			// SetRat = a/b rounded once (small numerators/denominators: the quotient of two unknowns is nonlinear)
			jobs = append(jobs, nat(J("H_C14_setrat", o, "p", 0, "da", 1, "db", 1)), nat(J("H_C14_setrat", o, "p", 1, "da", 1, "db", 1)), nat(J("H_C14_setrat", o, "p", 5, "da", 1, "db", 1)),
				nat(J("H_C14_setrat", o, "p", 3, "da", 2, "db", 1)))
			if tier == "thorough" {
				jobs = append(jobs, J("H_C14_rat", o, "w", 3, "e", 30), J("H_C14_rat", o, "w", 3, "e", 60), J("H_C14_rat", o, "w", 3, "e", -2))
				jobs = append(jobs, J("H_C14_setint", o, "n", 2, "p", 20), J("H_C14_setint", o, "n", 3, "p", 0))
				for e := 2; e <= 41; e++ {
					jobs = append(jobs, J("H_C14_toint", o, "w", 2, "e", e), J("H_C14_toint", o, "w", 3, "e", e))
				}
			}
			return jobs
		},
		Bounds: map[string]string{
			"quick":    "SetInt64/SetUint64/NewDecimal: every 64-bit argument, receiver precision in {0,5,19,20}; SetInt: big.Int of 0-2 binary words; Int64/Uint64/Int/IsInt/MinPrec: x of 1-2 words with exponent in {-1,0,1,5,19,20,21,38,40}, zeros and infinities; Rat: x of 1-2 words with exponent in {-40,-4,0,3,18,19,20,25,38,45}, zeros, infinities, fresh and previously used *big.Rat receivers; SetRat: one-digit over one-digit fractions at precision {0,1,5} and two-digit over one-digit at precision 3, both signs, every mode; all word values, signs.",
			"thorough": "as quick plus Rat of 3-word values, SetInt of 3 binary words (and rounded 2-word), Int64/Uint64/Int for every exponent 2..41 with 2-3 word mantissas.",
		},
		Outside:     []string{"SetRat for fractions with more than two digits (the quotient of two unknowns is nonlinear; SetRat is SetInt+Quo, whose parts are decided by this check and by C01)", "big.Rat's own normalisation: (*big.Rat).norm is modelled as the identity (value-preserving), so Rat's result is compared as a value, not as a reduced fraction", "thousand-digit arguments"},
		Assumptions: []string{"math/big.Int accessor methods are executed from their SSA bodies; nat.bitLen is replaced by its documented value; (*big.Rat).norm by the identity", archNote},
		LevelText:   "Bounded symbolic model checking of the integer and rational conversions against exact integer references (truncation toward zero, saturation, accuracy as the sign of the discarded part).",
		LevelNote:   trusted,
		Timeout:     map[string]time.Duration{"quick": 300 * time.Second, "thorough": 300 * time.Second},
	})
	// ------------------------------------------------------------------ C17
	Register(&PropDef{
		ID: "C17", Level: "model_checking", Contracts: "default", DesignRef: "DESIGN.md 5 (C17)",
		Jobs: func(tier string) []*sym.Job {
			o := obl("C17.", "C08.", "C09.")
			var jobs []*sym.Job
			for _, c := range [][]interface{}{{"fx", 0}, {"fx", 2}, {"fx", 1, "w", 1}, {"fx", 1, "w", 2}, {"fx", 1, "w", 2, "px", 20}, {"fx", 1, "w", 3, "px", 20}, {"fx", 1, "w", 2, "pz", 5}, {"fx", 1, "w", 1, "pz", 30}, {"fx", 0, "pz", 3}, {"fx", 2, "pz", 3},
				{"fx", 1, "w", 2, "zf", 1, "capx", 3}} {
				jobs = append(jobs, J("H_C17_roundtrip", o, c...))
			}
			maxL := 27
			if tier == "thorough" {
				maxL = 43
			}
			for L := 0; L <= maxL; L++ {
				jobs = append(jobs, J("H_C17_bytes", o, "L", L))
				if L%8 == 2 {
					jobs = append(jobs, J("H_C17_bytes", o, "L", L, "pz", 5, "zf", 1))
				}
			}
			return jobs
		},
		Bounds: map[string]string{
			"quick":    "round trip: zeros, infinities, finite values of 1-3 words incl. mantissas shorter than the precision requires, into a zero value (all attributes equal) and into receivers with precision 3/5/30 (value == roundRef, prec/mode kept); arbitrary byte strings of EVERY length 0..27 (all 256^L contents, symbolic), into zero-value and non-zero-precision receivers: no panic, error or Inv.",
			"thorough": "arbitrary byte strings of every length 0..43.",
		},
		Outside:     []string{"encoding/gob's own stream framing", "mantissas above 3 words / payloads above 43 bytes"},
		Assumptions: []string{archNote, "binary.BigEndian and dec.bytes/setBytes executed from their SSA bodies"},
		LevelText:   "Bounded symbolic model checking: GobDecode(GobEncode(x)) reproduces every attribute for all x in the shape bound; decoding a fully symbolic byte string of each length never panics and yields an error or a Decimal satisfying Inv.",
		LevelNote:   trusted,
		Timeout:     map[string]time.Duration{"quick": 300 * time.Second, "thorough": 300 * time.Second},
	})
	// ------------------------------------------------------------------ C20
	Register(&PropDef{
		ID: "C20", Level: "model_checking", Contracts: "default", DesignRef: "DESIGN.md 5 (C20)",
		Jobs: func(tier string) []*sym.Job {
			o := obl("C20.", "C02.", "C08.", "C09.")
			var jobs []*sym.Job
			maxN := 3
			if tier == "thorough" {
				maxN = 4
			}
			for n := 0; n <= maxN; n++ {
				for lz := 0; lz <= n; lz++ {
					for _, p := range []int{0, 5, 19, 20} {
						if tier != "thorough" && n == 3 && p == 20 && lz == 0 {
							continue
						}
						jobs = append(jobs, J("H_C20_setbits", o, "n", n, "lz", lz, "p", p))
					}
				}
			}
			for _, c := range [][]interface{}{{"fx", 0}, {"fx", 2}, {"fx", 1, "w", 1}, {"fx", 1, "w", 2, "mf", 1, "capx", 1}, {"fx", 1, "w", 3, "zf", 1}} {
				jobs = append(jobs, J("H_C20_mantexp", o, c...))
			}
			jobs = append(jobs, J("H_C20_setmantexp_any", o, "w", 1), J("H_C20_setmantexp_any", o, "w", 2, "alias", 1))
			return jobs
		},
		Bounds: map[string]string{
			"quick":    "SetBitsExp: slices of 0..3 words with every count of leading zero words, symbolic int64 exponent, receiver precision in {0,5,19,20}; BitsExp/MantExp/SetMantExp: zeros, infinities, 1-3 word mantissas, every int64 exponent argument, aliased receiver.",
			"thorough": "slices up to 4 words.",
		},
		Outside:     []string{"SetBitsExp exponents beyond +-2^62 in the value obligation (the reference's own int64 arithmetic); the no-panic obligation covers the full int64 range"},
		Assumptions: []string{"SetBitsExp argument words are below the base, as its contract requires", archNote},
		LevelText:   "Bounded symbolic model checking against roundRef / exact integer references.",
		LevelNote:   trusted,
		Timeout:     map[string]time.Duration{"quick": 300 * time.Second, "thorough": 300 * time.Second},
	})
}
