package props

import (
	"crypto/sha256"
	"encoding/json"
	"flag"
	"fmt"
	"math/rand"
	"os"
	"path/filepath"
	"runtime"
	"sort"
	"strconv"
	"strings"
	"time"

	"verif/engine/sym"
)

// PropDef describes one property check.
type PropDef struct {
	ID          string
	Level       string // evidence level
	Jobs        func(tier string) []*sym.Job
	Bounds      map[string]string // tier -> text
	Assumptions []string
	Outside     []string
	Contracts   string // contracts spec ("default", "none", list)
	// Extra runs additional machinery (e.g. p9sym for C07); returns extra
	// evidence and problems.
	Extra func(tier string, ev *Evidence) (violations []Violation, problems []string)
	// Witnesses that must be satisfiable somewhere in the run (vacuity guards)
	Witnesses []string
	Timeout   map[string]time.Duration
	MaxPaths  int
	LevelText string
	LevelNote string
	Technique string
	DesignRef string
}

var Registry = map[string]*PropDef{}

func Register(p *PropDef) { Registry[p.ID] = p }

type Violation struct {
	Property   string            `json:"property"`
	Harness    string            `json:"harness"`
	Pkg        string            `json:"pkg"`
	Cfg        map[string]int64  `json:"cfg"`
	Obligation string            `json:"obligation"`
	Where      string            `json:"where,omitempty"`
	Values     map[string]string `json:"values"`
	Known      string            `json:"known,omitempty"`
	Path       string            `json:"-"`
	Confirmed  map[string]string `json:"-"`
}

type Evidence struct {
	PropertyID  string                 `json:"property_id"`
	Tier        string                 `json:"tier"`
	Seed        int                    `json:"seed"`
	Level       string                 `json:"level"`
	Coverage    map[string]interface{} `json:"coverage"`
	Assumptions []string               `json:"assumptions"`
	WallS       float64                `json:"wall_s"`
	Violations  int                    `json:"violations"`
}

type KnownFinding struct {
	ID          string `json:"id"`
	Property    string `json:"property"`
	Status      string `json:"status"` // open | fixed
	Harness     string `json:"harness,omitempty"`
	Obligation  string `json:"obligation,omitempty"`
	Description string `json:"description"`
	Commit      string `json:"commit,omitempty"`
}

func loadKnown() []KnownFinding {
	b, err := os.ReadFile(filepath.Join(VerifDir(), "known_findings.json"))
	if err != nil {
		return nil
	}
	var f struct {
		Findings []KnownFinding `json:"findings"`
	}
	if err := json.Unmarshal(b, &f); err != nil {
		fmt.Fprintln(os.Stderr, "known_findings.json:", err)
		return nil
	}
	return f.Findings
}

func CheckMain(args []string) int {
	fs := flag.NewFlagSet("check", flag.ExitOnError)
	prop := fs.String("prop", "", "property id")
	tier := fs.String("tier", "quick", "quick|thorough")
	workers := fs.Int("j", runtime.NumCPU(), "workers")
	only := fs.String("only", "", "restrict to harnesses containing this substring (development)")
	verbose := fs.Bool("v", false, "print every job")
	noEvidence := fs.Bool("noevidence", false, "do not write the evidence file")
	fs.Parse(args)
	if t := os.Getenv("VERIF_TIER"); t != "" && !flagSet(fs, "tier") {
		*tier = t
	}
	def := Registry[*prop]
	if def == nil {
		fmt.Fprintf(os.Stderr, "unknown property %q\n", *prop)
		return 2
	}
	seed := 0
	if s := os.Getenv("VERIF_SEED"); s != "" {
		seed, _ = strconv.Atoi(s)
	}
	t0 := time.Now()
	work := filepath.Join(VerifDir(), ".work", *prop+"-"+*tier)
	os.RemoveAll(work)
	os.MkdirAll(work, 0o755)
	defer os.RemoveAll(work)

	ev := &Evidence{PropertyID: def.ID, Tier: *tier, Seed: seed, Level: def.Level, Coverage: map[string]interface{}{}}
	ev.Assumptions = append(ev.Assumptions, def.Assumptions...)
	var problems []string
	var violations []Violation

	var results []*sym.JobResult
	var loaded *sym.Loaded
	if def.Jobs != nil {
		l, err := sym.Load(DefaultLoad())
		if err != nil {
			fmt.Fprintln(os.Stderr, "LOAD FAILED:", err)
			fmt.Printf("INCONCLUSIVE property=%s cannot load /repo with the harness overlay\n", def.ID)
			return 3
		}
		loaded = l
		x := sym.NewExec(l)
		x.Seed = seed
		SetContracts(x, def.Contracts)
		if d, ok := def.Timeout[*tier]; ok {
			x.Timeout = d
		}
		if def.MaxPaths > 0 {
			x.MaxPaths = def.MaxPaths
		}
		// every job has a wall-clock budget, so that a change to /repo that makes an exploration diverge is
		// reported (UNWIND -> INCONCLUSIVE, or the violations found by the other jobs) instead of hanging
		x.JobWall = 12 * time.Minute
		x.CheckDeadline = t0.Add(18 * time.Minute)
		if *tier == "thorough" {
			x.JobWall = 45 * time.Minute
			x.CheckDeadline = t0.Add(150 * time.Minute)
		}
		jobs := def.Jobs(*tier)
		if *only != "" {
			var f []*sym.Job
			for _, j := range jobs {
				if strings.Contains(j.Label(), *only) {
					f = append(f, j)
				}
			}
			jobs = f
		}
		if seed != 0 {
			r := rand.New(rand.NewSource(int64(seed)))
			r.Shuffle(len(jobs), func(i, j int) { jobs[i], jobs[j] = jobs[j], jobs[i] })
		}
		results = x.RunJobs(jobs, *workers)
		sort.Slice(results, func(i, j int) bool { return results[i].Job.Label() < results[j].Job.Label() })
		summarize(def, x, l, results, ev, &problems, &violations, *verbose)
	}
	if def.Extra != nil {
		v2, p2 := def.Extra(*tier, ev)
		violations = append(violations, v2...)
		problems = append(problems, p2...)
	}

	// replay candidate violations natively
	known := loadKnown()
	confirmed, mismatched := 0, 0
	var knownLines []string
	exit := 0
	if len(violations) > 0 {
		reps := selectForReplay(violations, 4)
		if loaded == nil {
			l, err := sym.Load(DefaultLoad())
			if err == nil {
				loaded = l
			}
		}
		runReplays(def.ID, loaded, reps, work)
		for i := range reps {
			v := &reps[i]
			ok := false
			for _, r := range v.Confirmed {
				if strings.HasPrefix(r, "FAIL") {
					ok = true
				}
			}
			if !ok {
				mismatched++
				fmt.Printf("ENGINE-MISMATCH property=%s harness=%s obligation=%s native=%v replay=%s\n", def.ID, v.Harness, v.Obligation, v.Confirmed, v.Path)
				continue
			}
			confirmed++
			kf := matchKnown(known, def.ID, v)
			if kf != nil {
				knownLines = append(knownLines, fmt.Sprintf("KNOWN-FINDING: property=%s %s [%s] harness=%s obligation=%s cfg=%v", def.ID, kf.Description, kf.ID, v.Harness, v.Obligation, v.Cfg))
				continue
			}
			fmt.Printf("VIOLATION property=%s replay=%s\n", def.ID, v.Path)
			fmt.Printf("  harness=%s obligation=%s cfg=%v native=%v %s\n", v.Harness, v.Obligation, v.Cfg, v.Confirmed, v.Where)
			exit = 1
		}
	}
	seenK := map[string]bool{}
	for _, l := range knownLines {
		if !seenK[l] {
			seenK[l] = true
			fmt.Println(l)
		}
	}
	ev.Violations = 0
	if exit == 1 {
		ev.Violations = confirmed
	}
	tv, _ := ev.Coverage["traces_validated_against_impl"].(int)
	ev.Coverage["traces_validated_against_impl"] = tv + confirmed + mismatched
	ev.Coverage["replays_confirmed"] = confirmed
	ev.Coverage["replays_not_reproduced"] = mismatched
	ev.Coverage["known_findings_hit"] = len(seenK)
	ev.WallS = time.Since(t0).Seconds()
	if len(problems) > 0 {
		ev.Coverage["problems"] = problems
	}
	if !*noEvidence {
		writeEvidence(ev)
	}
	if mismatched > 0 && exit == 0 {
		exit = 2
	}
	if len(problems) > 0 {
		for _, p := range problems {
			fmt.Printf("INCONCLUSIVE property=%s %s\n", def.ID, p)
		}
		if exit == 0 {
			exit = 3
		}
	}
	fmt.Printf("RESULT property=%s tier=%s exit=%d wall=%.1fs\n", def.ID, *tier, exit, ev.WallS)
	return exit
}

func flagSet(fs *flag.FlagSet, name string) bool {
	found := false
	fs.Visit(func(f *flag.Flag) {
		if f.Name == name {
			found = true
		}
	})
	return found
}

func matchKnown(known []KnownFinding, prop string, v *Violation) *KnownFinding {
	for i := range known {
		k := &known[i]
		if k.Status != "open" || k.Property != prop {
			continue
		}
		if k.Harness != "" && k.Harness != v.Harness {
			continue
		}
		if k.Obligation != "" && !strings.HasPrefix(v.Obligation, k.Obligation) {
			continue
		}
		if v.Known != "" && v.Known != k.ID {
			continue
		}
		if v.Known == "" && strings.HasPrefix(k.ID, "KF-") {
			// predicate-scoped finding (the harness registers its input predicate with vKnown): it matches
			// only counterexamples whose inputs satisfy the predicate; any other violation of the same
			// harness is reported
			continue
		}
		return k
	}
	return nil
}

func summarize(def *PropDef, x *sym.Exec, l *sym.Loaded, results []*sym.JobResult, ev *Evidence, problems *[]string, violations *[]Violation, verbose bool) {
	var paths, infeasible, obls, proved, trivial, unknown, violated, queries, decisions, merged, steps int64
	var solverNS int64
	witness := map[string]int{}
	reached := map[string]int{}
	var samples []interface{}
	jobSummaries := []string{}
	for _, r := range results {
		if verbose {
			PrintJobResult(os.Stdout, r, true)
		}
		paths += int64(r.Paths)
		infeasible += int64(r.Infeasible)
		queries += int64(r.Stats.Queries)
		solverNS += r.Stats.SolverNS
		decisions += r.Decisions
		merged += r.Merged
		steps += r.Steps
		if r.Paths == 0 {
			*problems = append(*problems, "VACUOUS job (no completed path): "+r.Job.Label())
		}
		for _, e := range r.Errors {
			*problems = append(*problems, r.Job.Label()+": "+e)
		}
		for k, v := range r.Reached {
			reached[k] += v
		}
		jv, ju := 0, 0
		for _, o := range r.Obls {
			if strings.HasPrefix(o.Status, "w") {
				if o.Status == "wsat" {
					witness[o.ID]++
				} else if o.Status == "wunknown" {
					witness[o.ID] += 0
				}
				continue
			}
			obls++
			switch o.Status {
			case "proved":
				proved++
				if o.Trivial {
					trivial++
				}
			case "violated":
				violated++
				jv++
				*violations = append(*violations, Violation{Property: def.ID, Harness: r.Job.Harness, Pkg: r.Job.Pkg, Cfg: r.Job.Cfg, Obligation: o.ID, Where: o.Where, Values: o.Model, Known: o.Known})
			default:
				unknown++
				ju++
				if ju <= 2 {
					*problems = append(*problems, fmt.Sprintf("%s: obligation %s: solver answered unknown/timeout %s", r.Job.Label(), o.ID, o.Where))
				}
			}
		}
		if len(samples) < 6 && len(r.Samples) > 0 {
			samples = append(samples, map[string]interface{}{"job": r.Job.Label(), "paths": r.Paths, "obligations": len(r.Obls), "example": r.Samples[0]})
		}
		if len(jobSummaries) < 400 {
			jobSummaries = append(jobSummaries, fmt.Sprintf("%s: paths=%d obligations=%d violated=%d unknown=%d solver=%.2fs", r.Job.Label(), r.Paths, len(r.Obls), jv, ju, float64(r.Stats.SolverNS)/1e9))
		}
	}
	for _, w := range def.Witnesses {
		if witness[w] == 0 {
			*problems = append(*problems, "VACUITY witness never satisfiable: "+w)
		}
	}
	if len(samples) == 0 {
		samples = append(samples, "no job produced a path")
	}
	ev.Coverage["states"] = int(paths)
	ev.Coverage["transitions"] = int(decisions)
	ev.Coverage["traces_validated_against_impl"] = 0
	ev.Coverage["samples"] = samples
	ev.Coverage["jobs"] = len(results)
	ev.Coverage["infeasible_paths_pruned"] = int(infeasible)
	ev.Coverage["obligations"] = int(obls)
	ev.Coverage["discharged"] = int(proved)
	ev.Coverage["discharged_syntactically"] = int(trivial)
	ev.Coverage["obligations_unknown"] = int(unknown)
	ev.Coverage["obligations_sat"] = int(violated)
	ev.Coverage["solver_queries"] = int(queries)
	ev.Coverage["solver_time_s"] = float64(solverNS) / 1e9
	ev.Coverage["ssa_instructions_executed"] = int(steps)
	ev.Coverage["ite_merges"] = int(merged)
	ev.Coverage["witnesses_sat"] = witness
	ev.Coverage["reached"] = reached
	ev.Coverage["job_summaries"] = jobSummaries
	ev.Coverage["functions_encoded"] = x.FunctionsSeen(l)
	ev.Coverage["contracts_used"] = x.ContractsUsed()
	ev.Coverage["solver"] = solverVersion()
	ev.Coverage["bounds"] = def.Bounds[ev.Tier]
	ev.Coverage["outside_claim"] = def.Outside
	ev.Coverage["load_time_s"] = l.LoadTime.Seconds()
	ev.Coverage["source_hash"] = sourceHash()
	if def.Level == "other" {
		ev.Coverage["explanation"] = def.LevelText
	}
	if def.Level == "translation_validation" {
		ev.Coverage["programs"] = len(results)
		ev.Coverage["disagreements_checked"] = int(violated)
	}
}

func solverVersion() string {
	return "z3 (" + firstLine(runCmd("", nil, "z3", "--version")) + "), Int encoding with explicit wrap-around"
}

func firstLine(s string) string {
	if i := strings.IndexByte(s, '\n'); i >= 0 {
		return s[:i]
	}
	return s
}

func sourceHash() string {
	h := sha256.New()
	files, _ := filepath.Glob(filepath.Join(RepoDir(), "*.go"))
	f2, _ := filepath.Glob(filepath.Join(RepoDir(), "*.s"))
	f3, _ := filepath.Glob(filepath.Join(RepoDir(), "context", "*.go"))
	files = append(append(files, f2...), f3...)
	sort.Strings(files)
	for _, f := range files {
		b, _ := os.ReadFile(f)
		h.Write([]byte(f))
		h.Write(b)
	}
	return fmt.Sprintf("%x", h.Sum(nil))[:16]
}

func writeEvidence(ev *Evidence) {
	dir := filepath.Join(VerifDir(), "evidence")
	os.MkdirAll(dir, 0o755)
	b, _ := json.MarshalIndent(ev, "", " ")
	os.WriteFile(filepath.Join(dir, ev.PropertyID+".json"), append(b, '\n'), 0o644)
}

// selectForReplay keeps at most n violations per (harness, obligation).
func selectForReplay(vs []Violation, n int) []Violation {
	cnt := map[string]int{}
	var out []Violation
	for _, v := range vs {
		k := v.Harness + "|" + v.Obligation + "|" + v.Known
		if cnt[k] >= n {
			continue
		}
		cnt[k]++
		out = append(out, v)
	}
	return out
}
