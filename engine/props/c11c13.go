package props

import (
	"time"

	"verif/engine/sym"
)

func init() {
	fmts := map[string]int{"e": 'e', "E": 'E', "f": 'f', "g": 'g', "G": 'G', "p": 'p', "b": 'b', "m": 'm'}
	Register(&PropDef{
		ID: "C11", Level: "model_checking", Contracts: "default", DesignRef: "DESIGN.md 5 (C11)",
		Jobs: func(tier string) []*sym.Job {
			o := obl("C11.", "C09.operand")
			var jobs []*sym.Job
			for _, f := range []string{"e", "E", "f", "g", "G", "p", "b", "m"} {
				for _, fx := range []int{0, 2} {
					jobs = append(jobs, J("H_C11_rt", o, "fmt", fmts[f], "fx", fx))
				}
			}
			// one word, every digit pattern; exponent ranges are job parameters (the exponent's digit
			// count multiplies the number of paths)
			jobs = append(jobs, J("H_C11_rt", o, "fmt", fmts["e"], "w", 1, "elo", -2, "ehi", 2), J("H_C11_rt", o, "fmt", fmts["e"], "w", 1, "elo", 2147483646, "ehi", 2147483647),
				J("H_C11_rt", o, "fmt", fmts["e"], "w", 1, "elo", -2147483648, "ehi", -2147483647),
				// one- to four-digit printed exponents of both signs (the exponent stays symbolic; paths split on its digit count)
				J("H_C11_rt", o, "fmt", fmts["e"], "w", 1, "elo", -1100, "ehi", 1100),
				J("H_C11_rt", o, "fmt", fmts["b"], "w", 1, "elo", -1, "ehi", 1), J("H_C11_rt", o, "fmt", fmts["b"], "w", 1, "px", 7, "elo", 100, "ehi", 100),
				J("H_C11_rt", o, "fmt", fmts["g"], "w", 1, "elo", -5, "ehi", -3), J("H_C11_rt", o, "fmt", fmts["g"], "w", 1, "elo", 20, "ehi", 22), J("H_C11_rt", o, "fmt", fmts["m"], "w", 1, "elo", 0, "ehi", 1))
			if tier == "thorough" {
				jobs = append(jobs, J("H_C11_rt", o, "fmt", fmts["e"], "w", 1), J("H_C11_rt", o, "fmt", fmts["E"], "w", 1, "elo", -30, "ehi", 30), J("H_C11_rt", o, "fmt", fmts["p"], "w", 1, "elo", -3, "ehi", 3),
					J("H_C11_rt", o, "fmt", fmts["g"], "w", 1, "elo", -6, "ehi", 23), J("H_C11_rt", o, "fmt", fmts["m"], "w", 1, "elo", -6, "ehi", 23), J("H_C11_rt", o, "fmt", fmts["G"], "w", 1, "elo", -6, "ehi", 23),
					J("H_C11_rt", o, "fmt", fmts["f"], "w", 1, "elo", -3, "ehi", 3), J("H_C11_rt", o, "fmt", fmts["f"], "w", 1, "elo", 18, "ehi", 21))
			}
			return jobs
		},
		Bounds: map[string]string{
			"quick":    "x of one word (19 digits, every digit pattern incl. trailing zeros), every sign: format e with exponents -1100..1100 (every exponent digit count up to four, both signs) and at both ends of the int32 range; g with exponents -5..-3 and 20..22 (the %e/%f decision boundaries), MarshalText with exponents 0..1; b (precision 19 and 7); zeros and infinities for all of e E f g G p b and MarshalText. Parse(Append(x, fmt, -1)) into a receiver of 19 digits yields the same form, sign, exponent and mantissa value with accuracy Exact; for e/E/p exactly MinPrec significant digits are printed.",
			"thorough": "e with the full int32 exponent range; E (-30..30), p (-3..3), g/G/MarshalText (-6..23), f (-3..3 and 18..21).",
		},
		Outside:     []string{"encoding/json framing (quotes around MarshalText's output)", "mantissas above 2 words; format f outside exponents -3..21 (output length grows with the exponent)"},
		Assumptions: []string{"strconv.AppendInt is modelled (sign and digit count case split, digits by div/mod 10); strconv.ParseInt, strings.Reader, bytes.TrimRight run from their SSA bodies", archNote},
		LevelText:   "Bounded symbolic model checking of the composition Append;Parse: the output bytes are symbolic terms (digit slices of the mantissa words), the parser's character classification is decided on them, and the solver proves that the parsed value equals x for all word values in the bound.",
		LevelNote:   trusted,
		Timeout:     map[string]time.Duration{"quick": 300 * time.Second, "thorough": 300 * time.Second},
	})
	Register(&PropDef{
		ID: "C13", Level: "model_checking", Contracts: "default", DesignRef: "DESIGN.md 5 (C13), A.7",
		Jobs: func(tier string) []*sym.Job {
			o := obl("C13.", "C09.operand")
			var jobs []*sym.Job
			jobs = append(jobs, J("H_C13_fmt", o, "fmt", 'f', "P", 2, "elo", -3, "ehi", 3), J("H_C13_fmt", o, "fmt", 'f', "P", 0, "elo", -1, "ehi", 2),
				J("H_C13_fmt", o, "fmt", 'f', "P", 3, "elo", -7, "ehi", -3), J("H_C13_fmt", o, "fmt", 'e', "P", 0, "elo", -2, "ehi", 2), J("H_C13_fmt", o, "fmt", 'E', "P", 2, "elo", 98, "ehi", 102))
			// %g: rounding to P digits, trailing zeros dropped, %e/%f decision at exponents < -4 and >= P
			jobs = append(jobs, J("H_C13_fmt", o, "fmt", 'g', "P", 3, "elo", -4, "ehi", -3), J("H_C13_fmt", o, "fmt", 'g', "P", 2, "elo", 2, "ehi", 3), J("H_C13_fmt", o, "fmt", 'G', "P", 0, "elo", 0, "ehi", 1),
				J("H_C13_fmt", o, "fmt", 'g', "P", 21, "elo", 0, "ehi", 1))
			// Format behind the fmt verbs: flags, width and presence of a precision symbolic
			for _, verb := range []int{'e', 'E', 'f', 'F', 'g', 'G', 'v'} {
				jobs = append(jobs, J("H_C13_format", o, "verb", verb, "v", 15, "e", -1), J("H_C13_format", o, "verb", verb, "fx", 2), J("H_C13_format", o, "verb", verb, "fx", 0))
			}
			for _, f := range []int{'e', 'f', 'g', 'G', 'p', 'b'} {
				jobs = append(jobs, J("H_C13_zero", o, "fmt", f), J("H_C13_zero", o, "fmt", f, "P", 3))
			}
			if tier == "thorough" {
				jobs = append(jobs, J("H_C13_fmt", o, "fmt", 'e', "P", 2, "elo", -3, "ehi", 3), J("H_C13_fmt", o, "fmt", 'e', "P", 18, "elo", 0, "ehi", 1), J("H_C13_fmt", o, "fmt", 'e', "P", 25, "elo", 0, "ehi", 1),
					J("H_C13_fmt", o, "fmt", 'f', "P", 1, "elo", 18, "ehi", 21),
					J("H_C13_fmt", o, "fmt", 'g', "P", 3, "elo", -5, "ehi", -3), J("H_C13_fmt", o, "fmt", 'g', "P", 2, "elo", 1, "ehi", 4), J("H_C13_fmt", o, "fmt", 'G', "P", 1, "elo", -4, "ehi", -3))
			}
			return jobs
		},
		Bounds: map[string]string{
			"quick":    "Append with an explicit precision, x of one word, every rounding mode and sign: %f with P in {0,2,3} and exponents -7..3 (including rounding positions at and above the leading digit), %e/%E with P in {0,2} around exponents 0 and 100 (two- vs three-digit exponent), %g/%G with P in {0,2,3,21} at the %e/%f decision boundaries (exponents -4..-3, 2..3; trailing zeros dropped; P above the digit count): output bytes equal the layout of the once-rounded value byte for byte. Format (verbs e E f F g G v) for +-1.5, +-0 and +-Inf: every combination of the '+', '-', ' ', '0' flags that fmt can pass, widths 0..12 or none, precision 2 or none, against fmt's float layout (sign choice, zero padding between sign and digits, infinities never zero padded). Zeros: for e f g G p b (precision -1 and 3) the text of +-0 is the same whatever exponent and buffer the zero kept from an earlier finite value.",
			"thorough": "%e with P in {2,18,25}, %f with P=1 at exponents 18..21, %g/%G with P in {1,2,3} over the exponent windows -5..-3 and 1..4. (Tried and not registered: %f with P=5 and P=20 - layout obligations unknown at the 300 s limit; %f P=5 over -8..8 and %g over -6..5 - no result in 48 minutes.)",
		},
		Outside:     []string{"the p/b formats; the '#' flag; fmt's own treatment of %+v (plusV) which a Formatter cannot observe; Format's digits only for a fixed magnitude (the digits are the Append jobs' obligation); %g only at the listed precisions and exponent windows", "mantissas above one word"},
		Assumptions: []string{"reference layout written in harness/decimal/c13_format.go (roundAt + digit placement); strconv.AppendInt modelled", archNote},
		LevelText:   "Bounded symbolic model checking of Append(x, 'e'|'E'|'f'|'g'|'G', P): the printed bytes (symbolic digit terms) are proved equal to the reference layout of x rounded once under x's mode at the requested position, for all values in the bound.",
		LevelNote:   "Partial: Format's layout is decided for fixed magnitudes only. " + trusted,
		Timeout:     map[string]time.Duration{"quick": 300 * time.Second, "thorough": 300 * time.Second},
	})
}
