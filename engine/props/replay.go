package props

import (
	"bytes"
	"crypto/sha256"
	"encoding/json"
	"flag"
	"fmt"
	"os"
	"os/exec"
	"path/filepath"
	"sort"
	"strings"
	"time"

	"verif/engine/sym"
)

func runCmd(dir string, env []string, name string, args ...string) string {
	cmd := exec.Command(name, args...)
	cmd.Dir = dir
	cmd.Env = append(os.Environ(), env...)
	var out bytes.Buffer
	cmd.Stdout = &out
	cmd.Stderr = &out
	cmd.Run()
	return out.String()
}

type replayFile struct {
	Property   string            `json:"property"`
	Harness    string            `json:"harness"`
	Pkg        string            `json:"pkg"`
	Cfg        map[string]int64  `json:"cfg"`
	Obligation string            `json:"obligation"`
	Where      string            `json:"where,omitempty"`
	Values     map[string]string `json:"values"`
}

func harnessNames(l *sym.Loaded, pkg string) []string {
	var names []string
	sp := l.Pkgs[pkg]
	if sp == nil {
		return nil
	}
	for n := range sp.Members {
		if strings.HasPrefix(n, "H_") {
			names = append(names, n)
		}
	}
	sort.Strings(names)
	return names
}

func replayTestSource(pkgName string, harnesses []string) string {
	var sb strings.Builder
	sb.WriteString("//go:build verif\n\npackage " + pkgName + "\n\n")
	sb.WriteString("import (\n\t\"encoding/json\"\n\t\"fmt\"\n\t\"os\"\n\t\"strings\"\n\t\"testing\"\n)\n\n")
	sb.WriteString("var vHarnessTab = map[string]func(){\n")
	for _, h := range harnesses {
		fmt.Fprintf(&sb, "\t%q: %s,\n", h, h)
	}
	sb.WriteString("}\n\n")
	sb.WriteString(`func TestVerifReplay(t *testing.T) {
	for _, f := range strings.Split(os.Getenv("VERIF_REPLAY_FILES"), ":") {
		if f == "" {
			continue
		}
		b, err := os.ReadFile(f)
		if err != nil {
			t.Fatal(err)
		}
		var r struct {
			Harness    string
			Cfg        map[string]int64
			Values     map[string]string
			Obligation string
		}
		if err := json.Unmarshal(b, &r); err != nil {
			t.Fatal(err)
		}
		vReplayCfg, vReplayVal, vFailures, vAssumeBroken = r.Cfg, r.Values, nil, nil
		pan := ""
		h := vHarnessTab[r.Harness]
		if h == nil {
			t.Fatalf("unknown harness %s", r.Harness)
		}
		func() {
			defer func() {
				if e := recover(); e != nil {
					if _, ok := e.(vStop); !ok {
						pan = fmt.Sprint(e)
						if pan == "" {
							pan = "panic"
						}
					}
				}
			}()
			h()
		}()
		fmt.Printf("REPLAY-RESULT file=%s failures=%q assume=%q panic=%q\n", f, strings.Join(vFailures, ","), strings.Join(vAssumeBroken, ","), pan)
	}
}
`)
	if pkgName == "decimal" {
		sb.WriteString(`
// TestVerifReplayRace: confinement counterexamples (a store into an operand, a package-level
// variable or a pooled buffer) are not observable in a sequential run. They are confirmed
// natively by running the harness from several goroutines that SHARE the operands (each with its
// own receiver) under the race detector.
func TestVerifReplayRace(t *testing.T) {
	f := os.Getenv("VERIF_REPLAY_FILES")
	b, err := os.ReadFile(f)
	if err != nil {
		t.Fatal(err)
	}
	var r struct {
		Harness string
		Cfg     map[string]int64
		Values  map[string]string
	}
	if err := json.Unmarshal(b, &r); err != nil {
		t.Fatal(err)
	}
	vReplayCfg, vReplayVal = r.Cfg, r.Values
	h := vHarnessTab[r.Harness]
	if h == nil {
		t.Fatalf("unknown harness %s", r.Harness)
	}
	run := func() {
		defer func() { recover() }()
		h()
	}
	vShareOn = true
	setThresholds() // the only package-level state the harnesses assign; operands are built under a lock
	done := make(chan bool)
	for g := 0; g < 4; g++ {
		go func() {
			for i := 0; i < 25; i++ {
				run()
			}
			done <- true
		}()
	}
	for g := 0; g < 4; g++ {
		<-done
	}
	fmt.Printf("RACE-REPLAY-DONE file=%s\n", f)
}
`)
	}
	return sb.String()
}

// confinementObligation reports whether id is decided on the executor's ownership tags only
// (not observable by a sequential native run).
func confinementObligation(id string) bool {
	return strings.HasPrefix(id, "C18.confine.") || strings.HasPrefix(id, "C18.pool.")
}

// raceReplay runs one counterexample in race mode; it returns "FAIL race" if the race detector
// reports a data race, "PASS" if the run completes without one.
func raceReplay(l *sym.Loaded, file, work string) string {
	out := nativeReplayCmd(l, "decimal", "verif", []string{file}, work, "^TestVerifReplayRace$", true)
	switch {
	case strings.Contains(out, "WARNING: DATA RACE"):
		return "FAIL race (go test -race reports a data race between goroutines sharing the operands)"
	case strings.Contains(out, "RACE-REPLAY-DONE"):
		return "PASS"
	}
	return "ERROR no result: " + lastLines(out, 6)
}

// runReplays writes the replay files and runs them natively under the default
// (assembly) build and the pure-Go build. Results are stored in v.Confirmed.
func runReplays(prop string, l *sym.Loaded, vs []Violation, work string) {
	dir := filepath.Join(VerifDir(), "replays", prop)
	os.MkdirAll(dir, 0o755)
	byPkg := map[string][]int{}
	for i := range vs {
		v := &vs[i]
		rf := replayFile{Property: v.Property, Harness: v.Harness, Pkg: v.Pkg, Cfg: v.Cfg, Obligation: v.Obligation, Where: v.Where, Values: v.Values}
		b, _ := json.MarshalIndent(rf, "", " ")
		h := sha256.Sum256(b)
		v.Path = filepath.Join(dir, fmt.Sprintf("%s-%x.json", v.Harness, h[:6]))
		os.WriteFile(v.Path, append(b, '\n'), 0o644)
		v.Confirmed = map[string]string{}
		byPkg[v.Pkg] = append(byPkg[v.Pkg], i)
	}
	for pkg, idxs := range byPkg {
		var files []string
		for _, i := range idxs {
			files = append(files, vs[i].Path)
		}
		for _, build := range []struct{ name, tags string }{{"asm", "verif"}, {"purego", PureTags}} {
			out := nativeReplay(l, pkg, build.tags, files, work)
			res := parseReplayOutput(out)
			for _, i := range idxs {
				v := &vs[i]
				r, ok := res[v.Path]
				switch {
				case !ok:
					v.Confirmed[build.name] = "ERROR no result: " + lastLines(out, 6)
				case r.assume != "":
					v.Confirmed[build.name] = "ASSUME-BROKEN " + r.assume
				case v.Obligation == "nopanic.uncaught" && r.pan != "":
					v.Confirmed[build.name] = "FAIL panic: " + r.pan
				case containsID(r.failures, v.Obligation):
					v.Confirmed[build.name] = "FAIL " + v.Obligation
				case r.pan != "":
					v.Confirmed[build.name] = "FAIL (native panic: " + r.pan + ")"
				default:
					v.Confirmed[build.name] = "PASS"
				}
			}
		}
		// a counterexample that did not reproduce in the batch is run again in a process of its own: the
		// library's package-level state (e.g. a constant modified by an earlier replay) may have hidden it
		for _, i := range idxs {
			v := &vs[i]
			hit := false
			for _, r := range v.Confirmed {
				if strings.HasPrefix(r, "FAIL") {
					hit = true
				}
			}
			if hit || len(idxs) == 1 {
				continue
			}
			for _, build := range []struct{ name, tags string }{{"asm", "verif"}, {"purego", PureTags}} {
				res := parseReplayOutput(nativeReplay(l, pkg, build.tags, []string{v.Path}, work))
				if r, ok := res[v.Path]; ok && r.assume == "" {
					switch {
					case v.Obligation == "nopanic.uncaught" && r.pan != "":
						v.Confirmed[build.name] = "FAIL panic: " + r.pan
					case containsID(r.failures, v.Obligation):
						v.Confirmed[build.name] = "FAIL " + v.Obligation + " (own process)"
					case r.pan != "":
						v.Confirmed[build.name] = "FAIL (native panic: " + r.pan + ")"
					}
				}
			}
		}
		if pkg == "decimal" {
			for _, i := range idxs {
				if v := &vs[i]; confinementObligation(v.Obligation) {
					v.Confirmed["race"] = raceReplay(l, v.Path, work)
				}
			}
		}
	}
}

func lastLines(s string, n int) string {
	ls := strings.Split(strings.TrimSpace(s), "\n")
	if len(ls) > n {
		ls = ls[len(ls)-n:]
	}
	return strings.Join(ls, " | ")
}

func containsID(list, id string) bool {
	for _, x := range strings.Split(list, ",") {
		if x == id {
			return true
		}
	}
	return false
}

type replayRes struct{ failures, assume, pan string }

func parseReplayOutput(out string) map[string]replayRes {
	res := map[string]replayRes{}
	for _, line := range strings.Split(out, "\n") {
		line = strings.TrimSpace(line)
		if !strings.HasPrefix(line, "REPLAY-RESULT ") {
			continue
		}
		var f, fl, as, pn string
		rest := line[len("REPLAY-RESULT "):]
		// file=<path> failures="..." assume="..." panic="..."
		i := strings.Index(rest, " failures=")
		if i < 0 {
			continue
		}
		f = strings.TrimPrefix(rest[:i], "file=")
		rest = rest[i+1:]
		fmt.Sscanf(rest, "failures=%q assume=%q panic=%q", &fl, &as, &pn)
		res[f] = replayRes{fl, as, pn}
	}
	return res
}

func nativeReplay(l *sym.Loaded, pkg, tags string, files []string, work string) string {
	return nativeReplayCmd(l, pkg, tags, files, work, "^TestVerifReplay$", false)
}

func nativeReplayCmd(l *sym.Loaded, pkg, tags string, files []string, work, run string, race bool) string {
	repo := RepoDir()
	pkgName, sub := "decimal", ""
	if pkg == "context" {
		pkgName, sub = "context", "context"
	}
	testFile := filepath.Join(work, "replay_"+pkg+"_test.go")
	os.WriteFile(testFile, []byte(replayTestSource(pkgName, harnessNames(l, pkg))), 0o644)
	ov := map[string]map[string]string{"Replace": {}}
	for virt, real := range l.Overlay {
		ov["Replace"][virt] = real
	}
	ov["Replace"][filepath.Join(repo, sub, "zz_verif_replay_test.go")] = testFile
	ob, _ := json.Marshal(ov)
	ovFile := filepath.Join(work, "overlay_"+pkg+".json")
	os.WriteFile(ovFile, ob, 0o644)
	target := "."
	if sub != "" {
		target = "./" + sub
	}
	env := []string{"GOFLAGS=-mod=mod", "GOPROXY=off", "GOSUMDB=off", "GOTOOLCHAIN=local", "VERIF_REPLAY_FILES=" + strings.Join(files, ":")}
	ctxTimeout := "300s"
	args := []string{ctxTimeout, "go", "test", "-tags", tags, "-vet=off", "-count=1", "-run", run, "-v", "-overlay", ovFile}
	if race {
		args = append(args, "-race")
	}
	return runCmd(repo, env, "timeout", append(args, target)...)
}

// ReplayMain replays one recorded counterexample natively.
func ReplayMain(args []string) int {
	fs := flag.NewFlagSet("replay", flag.ExitOnError)
	file := fs.String("file", "", "replay file")
	prop := fs.String("prop", "", "property id")
	fs.Parse(args)
	_ = prop
	b, err := os.ReadFile(*file)
	if err != nil {
		fmt.Fprintln(os.Stderr, err)
		return 2
	}
	var rf replayFile
	if err := json.Unmarshal(b, &rf); err != nil {
		fmt.Fprintln(os.Stderr, err)
		return 2
	}
	l, err := sym.Load(DefaultLoad())
	if err != nil {
		fmt.Fprintln(os.Stderr, err)
		return 2
	}
	work := filepath.Join(VerifDir(), ".work", fmt.Sprintf("replay-%d", time.Now().UnixNano()))
	os.MkdirAll(work, 0o755)
	defer os.RemoveAll(work)
	abs, _ := filepath.Abs(*file)
	failed := false
	for _, build := range []struct{ name, tags string }{{"asm", "verif"}, {"purego", PureTags}} {
		out := nativeReplay(l, rf.Pkg, build.tags, []string{abs}, work)
		res := parseReplayOutput(out)
		r, ok := res[abs]
		if !ok {
			fmt.Printf("%s: no result\n%s\n", build.name, out)
			continue
		}
		fmt.Printf("%s: failures=%q assume=%q panic=%q\n", build.name, r.failures, r.assume, r.pan)
		if containsID(r.failures, rf.Obligation) || r.pan != "" {
			failed = true
		}
	}
	if failed {
		fmt.Printf("VIOLATION property=%s replay=%s\n", rf.Property, abs)
		return 1
	}
	fmt.Println("replay: the recorded input no longer violates the obligation")
	return 0
}
