package props

import (
	"time"

	"verif/engine/sym"
)

func init() {
	Register(&PropDef{
		ID: "C19", Level: "model_checking", Contracts: "default", DesignRef: "DESIGN.md 5 (C19)",
		Jobs: func(tier string) []*sym.Job {
			o := obl("C19.")
			cj := func(kv ...interface{}) *sym.Job {
				j := J("H_C19_op", o, kv...)
				j.Pkg = "context"
				return j
			}
			var jobs []*sym.Job
			// NaN-producing operand classes per operation (1 +Inf, 2 -Inf, 3 zero)
			nan := map[int][][3]int{
				0: {{1, 2, 0}, {2, 1, 0}}, 1: {{1, 1, 0}, {2, 2, 0}}, 2: {{3, 1, 0}, {2, 3, 0}}, 3: {{3, 3, 0}, {1, 2, 0}},
				4: {{3, 1, 0}, {1, 0, 2}}, 5: {{2, 0, 0}},
			}
			for op := 0; op <= 8; op++ {
				for _, cp := range []int{3, 34} {
					for _, zp := range []int{0, 7, 40} {
						if tier != "thorough" && cp == 34 && zp != 7 {
							continue
						}
						if op == 5 && cp == 34 {
							continue // Sqrt's Newton iteration on symbolic input: outside reach (C05)
						}
						if op == 5 {
							continue
						}
						jobs = append(jobs, cj("op", op, "cp", cp, "zp", zp))
					}
				}
				jobs = append(jobs, cj("op", op, "pre", 1), cj("op", op, "cx", 4), cj("op", op, "cx", 1), cj("op", op, "cx", 3))
				for _, n := range nan[op] {
					jobs = append(jobs, cj("op", op, "cx", n[0], "cy", n[1], "cu", n[2]))
				}
				if op <= 4 {
					jobs = append(jobs, cj("op", op, "cy", 4))
				}
			}
			// constructors: New, NewInt64, NewUint64, NewString carry the context's precision and mode
			for _, cp := range []int{3, 34} {
				j := J("H_C19_new", o, "cp", cp)
				j.Pkg = "context"
				jobs = append(jobs, j)
			}
			return jobs
		},
		Bounds: map[string]string{
			"quick":    "constructors New/NewInt64/NewUint64/NewString at context precision {3,34}, every mode (New(0, mode) yields the default precision); every Context operation (Add Sub Mul Quo FMA Sqrt Neg Abs Set) x outcome classes {normal, ErrNaN (each invalid combination of +-Inf/0), runtime panic (nil operand)} x context state {no error, error already latched}; context precision 3 and 34 with every rounding mode; receiver with precision 0/7 and every mode. Operand magnitudes are fixed (1234.567, 0.089, symbolic signs): the arithmetic is C01's concern, the latch automaton and attribute plumbing are decided for all its states.",
			"thorough": "all receiver precisions {0,7,40} with context precision 34.",
		},
		Outside:     []string{"Sqrt of finite values through the context (numeric iteration, see C05): only its special and panic outcomes are run", "panic values that are not errors (strings): the library never raises them from valid calls; the handler's re-panic path is covered by the runtime-error case"},
		Assumptions: []string{"errors.As is modelled by its documented rule for non-wrapping errors", archNote},
		LevelText:   "Bounded symbolic model checking of context/context.go with the real decimal operations behind it: (a) after a normal operation the receiver has the context's precision and mode and equals the plain operation on a fresh receiver with those attributes; (b) the latch automaton as an inductive step from every context state: latched => receiver untouched; ErrNaN => recorded, no panic, later operations no-ops, Err() returns it once and re-arms; any other panic propagates and is not latched.",
		LevelNote:   trusted,
		Timeout:     map[string]time.Duration{"quick": 300 * time.Second, "thorough": 120 * time.Second},
	})
}
