package term

import (
	"bufio"
	"fmt"
	"io"
	"math/big"
	"os"
	"os/exec"
	"strings"
	"time"
)

// Session is one long-lived solver process (z3 -in) with an incremental
// assertion stack. Definitions of terms are emitted once at the base level.
type Session struct {
	cmd     *exec.Cmd
	in      io.WriteCloser
	out     *bufio.Reader
	defined map[int]string // term id -> smt name/literal
	vars    map[string]*Term
	bvars   map[string]bool
	divmod  map[string][2]string
	Log     io.Writer
	Bin     string
	Timeout time.Duration
	nfresh  int
	Stats   *Stats
	dead    bool
	curTimeout time.Duration
	cutLists map[string]*cutList
	NoSlices bool
	OneStrategy bool
	AbstractMul bool // print products of two symbolic terms as unconstrained bounded constants (over-approximation)
	Seed    int
	script  *strings.Builder // full transcript of the base level (for dumps)
}

type Stats struct {
	Queries  int
	Sat      int
	Unsat    int
	Unknown  int
	SolverNS int64
}

func SolverBin() string {
	if b := os.Getenv("VERIF_SOLVER"); b != "" {
		return b
	}
	if _, err := exec.LookPath("z3-new"); err == nil {
		return "z3-new"
	}
	return "z3"
}

// Tactic used for proof obligations: a fresh (non-incremental) solve with
// equality solving, which decides many div/mod-heavy queries that the
// incremental core does not.
const hardTactic = "(check-sat-using (then simplify propagate-values solve-eqs smt))"
const hardTactic2 = "(check-sat-using (then simplify propagate-values solve-eqs (using-params smt :arith.solver 2)))"
const hardTactic3 = "(check-sat-using (then simplify solve-eqs (using-params smt :random_seed 17)))"

func NewSession(timeout time.Duration, st *Stats) (*Session, error) {
	s := &Session{Bin: SolverBin(), Timeout: timeout, Stats: st}
	if err := s.start(); err != nil {
		return nil, err
	}
	return s, nil
}

func (s *Session) start() error {
	cmd := exec.Command(s.Bin, "-in")
	in, err := cmd.StdinPipe()
	if err != nil {
		return err
	}
	out, err := cmd.StdoutPipe()
	if err != nil {
		return err
	}
	cmd.Stderr = os.Stderr
	if err := cmd.Start(); err != nil {
		return err
	}
	s.cmd, s.in, s.out = cmd, in, bufio.NewReaderSize(out, 1<<20)
	s.dead = false
	s.resetState()
	s.send(fmt.Sprintf("(set-option :timeout %d)", s.Timeout.Milliseconds()))
	s.send("(set-option :print-success false)")
	return nil
}

func (s *Session) resetState() {
	s.curTimeout = s.Timeout
	s.defined = map[int]string{}
	s.vars = map[string]*Term{}
	s.bvars = map[string]bool{}
	s.divmod = map[string][2]string{}
	s.cutLists = nil
	s.script = &strings.Builder{}
}

func (s *Session) Close() {
	if s.cmd != nil {
		s.in.Close()
		done := make(chan struct{})
		go func() { s.cmd.Wait(); close(done) }()
		select {
		case <-done:
		case <-time.After(2 * time.Second):
			s.cmd.Process.Kill()
		}
		s.cmd = nil
	}
}

// Reset clears all assertions and definitions (new path).
func (s *Session) Reset() {
	if s.dead {
		s.Close()
		if err := s.start(); err != nil {
			panic(err)
		}
		return
	}
	s.send("(reset)")
	s.resetState()
	s.send(fmt.Sprintf("(set-option :timeout %d)", s.Timeout.Milliseconds()))
	if s.Seed != 0 {
		s.send(fmt.Sprintf("(set-option :smt.random_seed %d)", s.Seed))
		s.send(fmt.Sprintf("(set-option :sat.random_seed %d)", s.Seed))
	}
}

func (s *Session) send(line string) {
	if s.Log != nil {
		fmt.Fprintln(s.Log, line)
	}
	s.script.WriteString(line)
	s.script.WriteByte('\n')
	if _, err := io.WriteString(s.in, line+"\n"); err != nil {
		s.dead = true
	}
}

func (s *Session) Script() string { return s.script.String() }
func (s *Session) Dead() bool     { return s.dead }

func sym(name string) string {
	ok := true
	for _, r := range name {
		if !(r >= 'a' && r <= 'z' || r >= 'A' && r <= 'Z' || r >= '0' && r <= '9' || r == '_' || r == '.' || r == '!') {
			ok = false
		}
	}
	if ok && !(name[0] >= '0' && name[0] <= '9') {
		return name
	}
	return "|" + strings.ReplaceAll(name, "|", "_") + "|"
}

func lit(v *big.Int) string {
	if v.Sign() < 0 {
		return "(- " + new(big.Int).Neg(v).String() + ")"
	}
	return v.String()
}

func (s *Session) freshName(p string) string {
	s.nfresh++
	return fmt.Sprintf("%s_%d", p, s.nfresh)
}

// def returns the SMT expression naming t, emitting definitions as needed.
func (s *Session) def(t *Term) string {
	if n, ok := s.defined[t.ID]; ok {
		return n
	}
	var n string
	switch t.Op {
	case OConst:
		n = lit(t.C)
	case OTrue:
		n = "true"
	case OFalse:
		n = "false"
	case OVar:
		n = sym(t.Name)
		if _, ok := s.vars[t.Name]; !ok {
			s.vars[t.Name] = t
			s.send(fmt.Sprintf("(declare-const %s Int)", n))
			if t.Lo != nil {
				s.send(fmt.Sprintf("(assert (<= %s %s))", lit(t.Lo), n))
			}
			if t.Hi != nil {
				s.send(fmt.Sprintf("(assert (<= %s %s))", n, lit(t.Hi)))
			}
		}
	case OBVar:
		n = sym(t.Name)
		if !s.bvars[t.Name] {
			s.bvars[t.Name] = true
			s.send(fmt.Sprintf("(declare-const %s Bool)", n))
		}
	case ODiv, OMod:
		if t.Args[1].IsConst() && !s.NoSlices {
			n = s.defSlice(t)
			break
		}
		a, b := s.def(t.Args[0]), s.def(t.Args[1])
		k := fmt.Sprintf("%d/%d", t.Args[0].ID, t.Args[1].ID)
		qr, ok := s.divmod[k]
		if !ok {
			q, r := s.freshName("dq"), s.freshName("dr")
			qr = [2]string{q, r}
			s.divmod[k] = qr
			s.send(fmt.Sprintf("(declare-const %s Int)(declare-const %s Int)", q, r))
			body := fmt.Sprintf("(and (= %s (+ (* %s %s) %s)) (<= 0 %s) (< %s %s))", a, b, q, r, r, r, b)
			if t.Args[1].IsConst() {
				s.send(fmt.Sprintf("(assert %s)", body))
			} else if s.AbstractMul {
				s.send(fmt.Sprintf("(assert (=> (> %s 0) (and (<= 0 %s) (< %s %s))))", b, r, r, b))
				// linear relaxation of a = q*b + r using the divisor's interval
				bt, at := t.Args[1], t.Args[0]
				if bt.Lo != nil && bt.Lo.Sign() > 0 && at.NonNeg() {
					s.send(fmt.Sprintf("(assert (and (<= 0 %s) (<= (+ (* %s %s) %s) %s)))", q, lit(bt.Lo), q, r, a))
					if bt.Hi != nil {
						s.send(fmt.Sprintf("(assert (<= %s (+ (* %s %s) %s)))", a, lit(bt.Hi), q, r))
					}
				}
			} else {
				s.send(fmt.Sprintf("(assert (=> (> %s 0) %s))", b, body))
			}
			// interval hints help the nonlinear core
			for i, op := range []Op{ODiv, OMod} {
				var x *Term
				if op == t.Op {
					x = t
				}
				if x != nil {
					if x.Lo != nil {
						s.send(fmt.Sprintf("(assert (<= %s %s))", lit(x.Lo), qr[i]))
					}
					if x.Hi != nil {
						s.send(fmt.Sprintf("(assert (<= %s %s))", qr[i], lit(x.Hi)))
					}
				}
			}
		}
		if t.Op == ODiv {
			n = qr[0]
		} else {
			n = qr[1]
		}
	case OBitAnd, OBitOr, OBitXor:
		n = s.bitblast(t)
	default:
		args := make([]string, len(t.Args))
		for i, a := range t.Args {
			args[i] = s.def(a)
		}
		var e string
		sort := "Int"
		if t.Bool {
			sort = "Bool"
		}
		switch t.Op {
		case OLin:
			parts := []string{}
			if t.C.Sign() != 0 {
				parts = append(parts, lit(t.C))
			}
			for i, a := range args {
				if t.Coef[i].Cmp(big1) == 0 {
					parts = append(parts, a)
				} else {
					parts = append(parts, fmt.Sprintf("(* %s %s)", lit(t.Coef[i]), a))
				}
			}
			if len(parts) == 1 {
				e = parts[0]
			} else {
				e = "(+ " + strings.Join(parts, " ") + ")"
			}
		case OMul:
			if s.AbstractMul {
				n = s.freshName("mul")
				s.send(fmt.Sprintf("(declare-const %s Int)", n))
				if t.Lo != nil {
					s.send(fmt.Sprintf("(assert (<= %s %s))", lit(t.Lo), n))
				}
				if t.Hi != nil {
					s.send(fmt.Sprintf("(assert (<= %s %s))", n, lit(t.Hi)))
				}
				// McCormick envelopes (linear relaxation of the product)
				x, y := t.Args[0], t.Args[1]
				if x.Lo != nil && x.Hi != nil && y.Lo != nil && y.Hi != nil {
					mc := func(xb, yb *big.Int, ge bool) {
						// m (>=|<=) xb*y + yb*x - xb*yb
						op := "<="
						if ge {
							op = ">="
						}
						s.send(fmt.Sprintf("(assert (%s %s (+ (* %s %s) (* %s %s) %s)))", op, n, lit(xb), args[1], lit(yb), args[0], lit(new(big.Int).Neg(new(big.Int).Mul(xb, yb)))))
					}
					mc(x.Lo, y.Lo, true)
					mc(x.Hi, y.Hi, true)
					mc(x.Hi, y.Lo, false)
					mc(x.Lo, y.Hi, false)
				}
				s.defined[t.ID] = n
				return n
			}
			e = fmt.Sprintf("(* %s %s)", args[0], args[1])
		case OIte:
			e = fmt.Sprintf("(ite %s %s %s)", args[0], args[1], args[2])
		case OEq:
			e = fmt.Sprintf("(= %s %s)", args[0], args[1])
		case OLe:
			e = fmt.Sprintf("(<= %s %s)", args[0], args[1])
		case ONot:
			e = fmt.Sprintf("(not %s)", args[0])
		case OAnd:
			e = "(and " + strings.Join(args, " ") + ")"
		case OOr:
			e = "(or " + strings.Join(args, " ") + ")"
		default:
			panic(fmt.Sprintf("smt: op %d", t.Op))
		}
		n = fmt.Sprintf("t%d", t.ID)
		s.send(fmt.Sprintf("(define-fun %s () %s %s)", n, sort, e))
	}
	s.defined[t.ID] = n
	return n
}

// ---- digit-slice decomposition of div/mod by constants
//
// All divisions of the same dividend X by constants of one family (powers of
// ten, powers of two) are expressed over a common refinement
//   X = s0 + c1*s1 + ... + cm*sm,   0 <= sj < c(j+1)/cj
// so that X div cj and X mod cj are linear in the slices and the relations
// between different cut points are explicit.

type cutList struct {
	cuts   []*big.Int // ascending, each divides the next
	slices []string   // len(cuts)+1 names
}

func family(c *big.Int) string {
	if _, ok := isPow2(c); ok {
		return "p2"
	}
	// power of ten?
	v := new(big.Int).Set(c)
	ten := big.NewInt(10)
	m := new(big.Int)
	for v.Cmp(big1) > 0 {
		v.QuoRem(v, ten, m)
		if m.Sign() != 0 {
			return "c" + c.String()
		}
	}
	return "p10"
}

func (s *Session) defSlice(t *Term) string {
	X := t.Args[0]
	c := t.Args[1].C
	// (B div m) mod c with m, c of one family: a slice of B itself
	if t.Op == OMod && X.Op == ODiv && X.Args[1].IsConst() && family(c) == family(X.Args[1].C) && family(c) != "c"+c.String() {
		B, m := X.Args[0], X.Args[1].C
		top := new(big.Int).Mul(m, c)
		cl := s.cutsFor(B, m)
		s.ensureCut(cl, B, m)
		s.ensureCut(cl, B, top)
		var parts []string
		for i, cc := range cl.cuts {
			if cc.Cmp(m) >= 0 && cc.Cmp(top) < 0 {
				f := new(big.Int).Quo(cc, m)
				if f.Cmp(big1) == 0 {
					parts = append(parts, cl.slices[i+1])
				} else {
					parts = append(parts, fmt.Sprintf("(* %s %s)", lit(f), cl.slices[i+1]))
				}
			}
		}
		e := parts[0]
		if len(parts) > 1 {
			e = "(+ " + strings.Join(parts, " ") + ")"
		}
		n := fmt.Sprintf("t%d", t.ID)
		s.send(fmt.Sprintf("(define-fun %s () Int %s)", n, e))
		return n
	}
	return s.defSlice1(t)
}

func (s *Session) cutsFor(X *Term, c *big.Int) *cutList {
	key := fmt.Sprintf("%d/%s", X.ID, family(c))
	if s.cutLists == nil {
		s.cutLists = map[string]*cutList{}
	}
	cl := s.cutLists[key]
	if cl == nil {
		cl = &cutList{}
		s.cutLists[key] = cl
	}
	return cl
}

// ensureCut makes c a cut point of X's list and returns its index.
func (s *Session) ensureCut(cl *cutList, X *Term, c *big.Int) int {
	xn := s.def(X)
	if len(cl.cuts) == 0 {
		s0, s1 := s.freshName("sl"), s.freshName("sl")
		s.send(fmt.Sprintf("(declare-const %s Int)(declare-const %s Int)", s0, s1))
		s.send(fmt.Sprintf("(assert (= %s (+ %s (* %s %s))))", xn, s0, lit(c), s1))
		s.send(fmt.Sprintf("(assert (and (<= 0 %s) (< %s %s)))", s0, s0, lit(c)))
		s.boundTop(s1, X, c)
		cl.cuts = []*big.Int{c}
		cl.slices = []string{s0, s1}
		return 0
	}
	for i, cc := range cl.cuts {
		if cc.Cmp(c) == 0 {
			return i
		}
	}
	j := 0
	for j < len(cl.cuts) && cl.cuts[j].Cmp(c) < 0 {
		j++
	}
	below := big1
	if j > 0 {
		below = cl.cuts[j-1]
	}
	old := cl.slices[j]
	lo, hi := s.freshName("sl"), s.freshName("sl")
	f := new(big.Int).Quo(c, below) // slice j is split at factor f
	s.send(fmt.Sprintf("(declare-const %s Int)(declare-const %s Int)", lo, hi))
	s.send(fmt.Sprintf("(assert (= %s (+ %s (* %s %s))))", old, lo, lit(f), hi))
	s.send(fmt.Sprintf("(assert (and (<= 0 %s) (< %s %s)))", lo, lo, lit(f)))
	if j < len(cl.cuts) {
		up := new(big.Int).Quo(cl.cuts[j], c)
		s.send(fmt.Sprintf("(assert (and (<= 0 %s) (< %s %s)))", hi, hi, lit(up)))
	} else {
		s.boundTop(hi, X, c)
	}
	cl.cuts = append(cl.cuts[:j], append([]*big.Int{c}, cl.cuts[j:]...)...)
	ns := append([]string{}, cl.slices[:j]...)
	ns = append(ns, lo, hi)
	ns = append(ns, cl.slices[j+1:]...)
	cl.slices = ns
	return j
}

func (s *Session) defSlice1(t *Term) string {
	X := t.Args[0]
	c := t.Args[1].C
	cl := s.cutsFor(X, c)
	pos := s.ensureCut(cl, X, c)
	// expression
	var parts []string
	if t.Op == ODiv {
		for i := pos + 1; i < len(cl.slices); i++ {
			f := new(big.Int).Quo(cl.cuts[i-1], c)
			if f.Cmp(big1) == 0 {
				parts = append(parts, cl.slices[i])
			} else {
				parts = append(parts, fmt.Sprintf("(* %s %s)", lit(f), cl.slices[i]))
			}
		}
	} else {
		for i := 0; i <= pos; i++ {
			if i == 0 {
				parts = append(parts, cl.slices[0])
			} else {
				parts = append(parts, fmt.Sprintf("(* %s %s)", lit(cl.cuts[i-1]), cl.slices[i]))
			}
		}
	}
	e := parts[0]
	if len(parts) > 1 {
		e = "(+ " + strings.Join(parts, " ") + ")"
	}
	n := fmt.Sprintf("t%d", t.ID)
	s.send(fmt.Sprintf("(define-fun %s () Int %s)", n, e))
	return n
}

func (s *Session) boundTop(name string, X *Term, c *big.Int) {
	if X.Lo != nil {
		s.send(fmt.Sprintf("(assert (<= %s %s))", lit(floorDiv(X.Lo, c)), name))
	}
	if X.Hi != nil {
		s.send(fmt.Sprintf("(assert (<= %s %s))", name, lit(floorDiv(X.Hi, c))))
	}
}

func (s *Session) bitblast(t *Term) string {
	w := t.W
	for _, a := range t.Args {
		if a.Hi == nil || !a.NonNeg() {
			w = t.W
			break
		}
	}
	if t.Args[0].Hi != nil && t.Args[1].Hi != nil {
		n := t.Args[0].Hi.BitLen()
		if m := t.Args[1].Hi.BitLen(); m > n {
			n = m
		}
		if n < w {
			w = n
		}
	}
	a, b := s.def(t.Args[0]), s.def(t.Args[1])
	bits := func(x string) []string {
		names := make([]string, w)
		var sum []string
		for i := 0; i < w; i++ {
			names[i] = s.freshName("b")
			s.send(fmt.Sprintf("(declare-const %s Int)(assert (<= 0 %s 1))", names[i], names[i]))
			sum = append(sum, fmt.Sprintf("(* %s %s)", Pow2(i).String(), names[i]))
		}
		if x != "" {
			s.send(fmt.Sprintf("(assert (= %s (+ 0 %s)))", x, strings.Join(sum, " ")))
		}
		return names
	}
	ab, bb := bits(a), bits(b)
	r := s.freshName("bw")
	s.send(fmt.Sprintf("(declare-const %s Int)", r))
	rb := bits(r)
	for i := 0; i < w; i++ {
		switch t.Op {
		case OBitAnd:
			s.send(fmt.Sprintf("(assert (= %s (ite (and (= %s 1) (= %s 1)) 1 0)))", rb[i], ab[i], bb[i]))
		case OBitOr:
			s.send(fmt.Sprintf("(assert (= %s (ite (or (= %s 1) (= %s 1)) 1 0)))", rb[i], ab[i], bb[i]))
		case OBitXor:
			s.send(fmt.Sprintf("(assert (= %s (ite (= %s %s) 0 1)))", rb[i], ab[i], bb[i]))
		}
	}
	return r
}

// Assert adds t permanently (until Reset).
func (s *Session) Assert(t *Term) {
	if t.IsTrue() {
		return
	}
	n := s.def(t)
	s.send(fmt.Sprintf("(assert %s)", n))
}

var dumpN int

type Result int

const (
	Unsat Result = iota
	Sat
	Unknown
)

func (r Result) String() string { return [...]string{"unsat", "sat", "unknown"}[r] }

func (s *Session) readLine() (string, error) {
	for {
		line, err := s.out.ReadString('\n')
		if err != nil {
			s.dead = true
			return "", err
		}
		line = strings.TrimSpace(line)
		if line == "" {
			continue
		}
		return line, nil
	}
}

// Check decides satisfiability of the asserted stack plus extra. When the
// answer is Sat and wantModel is set, the model of all declared variables is
// returned.
func (s *Session) Check(wantModel bool, extra ...*Term) (Result, map[string]*big.Int, map[string]bool) {
	return s.CheckMode(false, wantModel, extra...)
}

// CheckMode: hard selects the tactic-based strategy first (proof obligations);
// the other strategy is tried when the first answers unknown.
func (s *Session) CheckMode(hard, wantModel bool, extra ...*Term) (Result, map[string]*big.Int, map[string]bool) {
	return s.CheckT(s.Timeout, hard, wantModel, extra...)
}

// CheckT is CheckMode with an explicit per-strategy timeout.
func (s *Session) CheckT(timeout time.Duration, hard, wantModel bool, extra ...*Term) (Result, map[string]*big.Int, map[string]bool) {
	names := make([]string, 0, len(extra))
	for _, e := range extra {
		if e.IsFalse() {
			return Unsat, nil, nil
		}
		if e.IsTrue() {
			continue
		}
		names = append(names, s.def(e))
	}
	t0 := time.Now()
	if timeout != s.curTimeout {
		s.send(fmt.Sprintf("(set-option :timeout %d)", timeout.Milliseconds()))
		s.curTimeout = timeout
	}
	s.send("(push 1)")
	for _, n := range names {
		s.send(fmt.Sprintf("(assert %s)", n))
	}
	type strat struct {
		cmd  string
		frac int // share of the timeout in percent
	}
	strategies := []strat{{"(check-sat)", 100}, {hardTactic, 100}}
	if hard || os.Getenv("VERIF_TACTIC_FIRST") != "" {
		// a small portfolio: solver run times on these queries are heavy-tailed, and a second
		// configuration usually decides at once what the first one got stuck on
		strategies = []strat{{hardTactic, 50}, {hardTactic2, 25}, {hardTactic3, 25}, {"(check-sat)", 25}}
	}
	if s.OneStrategy {
		strategies = strategies[:1]
		strategies[0].frac = 100
	}
	res := Unknown
	for _, st := range strategies {
		to := timeout * time.Duration(st.frac) / 100
		if to != s.curTimeout {
			s.send(fmt.Sprintf("(set-option :timeout %d)", to.Milliseconds()))
			s.curTimeout = to
		}
		s.send(st.cmd)
		// watchdog: a solver that ignores its own timeout is killed
		wd := time.AfterFunc(to+10*time.Second, func() {
			if s.cmd != nil && s.cmd.Process != nil {
				s.cmd.Process.Kill()
			}
		})
		line, err := s.readLine()
		wd.Stop()
		if err != nil {
			break
		}
		switch line {
		case "sat":
			res = Sat
		case "unsat":
			res = Unsat
		default:
			// "unknown", "timeout" or an (error ...) line: inconclusive
			if strings.HasPrefix(line, "(error") {
				fmt.Fprintln(os.Stderr, "solver:", line)
			}
			res = Unknown
		}
		if res != Unknown {
			break
		}
	}
	if d := os.Getenv("VERIF_DUMP"); d != "" && (res == Unknown || time.Since(t0) > 5*time.Second) {
		dumpN++
		os.WriteFile(fmt.Sprintf("%s/q%d_%s_%dms.smt2", d, dumpN, res, time.Since(t0).Milliseconds()), []byte(s.script.String()), 0o644)
	}
	var env map[string]*big.Int
	var benv map[string]bool
	if res == Sat && wantModel {
		env, benv = s.model()
	}
	if !s.dead {
		s.send("(pop 1)")
	}
	if s.Stats != nil {
		s.Stats.Queries++
		s.Stats.SolverNS += time.Since(t0).Nanoseconds()
		switch res {
		case Sat:
			s.Stats.Sat++
		case Unsat:
			s.Stats.Unsat++
		default:
			s.Stats.Unknown++
		}
	}
	return res, env, benv
}

func (s *Session) model() (map[string]*big.Int, map[string]bool) {
	env := map[string]*big.Int{}
	benv := map[string]bool{}
	var names []string
	for n := range s.vars {
		names = append(names, n)
	}
	for n := range s.bvars {
		names = append(names, n)
	}
	if len(names) == 0 {
		return env, benv
	}
	// query in chunks
	for i := 0; i < len(names); i += 64 {
		j := i + 64
		if j > len(names) {
			j = len(names)
		}
		var q []string
		for _, n := range names[i:j] {
			q = append(q, sym(n))
		}
		s.send("(get-value (" + strings.Join(q, " ") + "))")
		txt := s.readSexpr()
		toks := tokenize(txt)
		// ((name value) (name value) ...)
		pos := 1
		for _, n := range names[i:j] {
			// expect "(" name value ")"
			if pos >= len(toks) || toks[pos] != "(" {
				break
			}
			pos += 2 // "(" name
			val, np := parseVal(toks, pos)
			pos = np + 1 // ")"
			if _, ok := s.bvars[n]; ok {
				benv[n] = val.Sign() != 0
			} else {
				env[n] = val
			}
		}
	}
	return env, benv
}

func (s *Session) readSexpr() string {
	var sb strings.Builder
	depth := 0
	started := false
	for {
		line, err := s.out.ReadString('\n')
		if err != nil {
			s.dead = true
			return sb.String()
		}
		sb.WriteString(line)
		for _, r := range line {
			if r == '(' {
				depth++
				started = true
			} else if r == ')' {
				depth--
			}
		}
		if started && depth <= 0 {
			return sb.String()
		}
	}
}

func tokenize(s string) []string {
	var toks []string
	i := 0
	for i < len(s) {
		ch := s[i]
		switch {
		case ch == '(' || ch == ')':
			toks = append(toks, string(ch))
			i++
		case ch == ' ' || ch == '\n' || ch == '\t' || ch == '\r':
			i++
		case ch == '|':
			j := i + 1
			for j < len(s) && s[j] != '|' {
				j++
			}
			toks = append(toks, s[i:j+1])
			i = j + 1
		default:
			j := i
			for j < len(s) && !strings.ContainsRune("() \n\t\r", rune(s[j])) {
				j++
			}
			toks = append(toks, s[i:j])
			i = j
		}
	}
	return toks
}

func parseVal(toks []string, pos int) (*big.Int, int) {
	t := toks[pos]
	switch t {
	case "true":
		return big.NewInt(1), pos + 1
	case "false":
		return big.NewInt(0), pos + 1
	case "(":
		// (- N)
		if toks[pos+1] == "-" {
			v, np := parseVal(toks, pos+2)
			return new(big.Int).Neg(v), np + 1
		}
		// unexpected: skip to matching paren
		d := 0
		i := pos
		for ; i < len(toks); i++ {
			if toks[i] == "(" {
				d++
			} else if toks[i] == ")" {
				d--
				if d == 0 {
					break
				}
			}
		}
		return big.NewInt(0), i + 1
	}
	v, ok := new(big.Int).SetString(t, 10)
	if !ok {
		v = big.NewInt(0)
	}
	return v, pos + 1
}
