// Package term implements the symbolic term language of gosym: mathematical
// integers and booleans with interval tracking, a normalising constructor API
// and an SMT-LIB2 (Int theory) printer.
//
// Machine integers are encoded as mathematical integers with *explicit*
// wrap-around (see WrapU / WrapS): Go's modular semantics is preserved exactly.
package term

import (
	"fmt"
	"math/big"
	"sort"
	"strings"
)

type Op uint8

const (
	OConst Op = iota // integer constant C
	OVar             // integer variable Name in [Lo,Hi]
	OLin             // C + sum Coef[i]*Args[i]
	OMul             // Args[0]*Args[1], both non-constant
	ODiv             // floor(Args[0]/Args[1]), Args[1] > 0 (constant or symbolic)
	OMod             // Args[0] mod Args[1], Args[1] > 0
	OIte             // Args[0] ? Args[1] : Args[2]   (int or bool)
	OBitAnd          // opaque bitwise ops on non-negative ints of width W
	OBitOr
	OBitXor
	OTrue
	OFalse
	OBVar // boolean variable
	OEq   // int equality
	OLe   // Args[0] <= Args[1]
	ONot
	OAnd
	OOr
)

type Term struct {
	Op     Op
	Bool   bool
	Args   []*Term
	C      *big.Int
	Coef   []*big.Int
	Name   string
	W      int
	Lo, Hi *big.Int // nil = unbounded
	ID     int
	TZ     int // known trailing zero bits (ints); 1<<30 for constant 0
}

// Ctx interns terms (hash-consing). One Ctx per explored path / worker.
type Ctx struct {
	byID map[int]*Term
	known    map[int]bool // boolean terms with a value fixed by the path condition
	knownVer int
	resMemo  map[int]*Term
	resVer   int
	tab   map[string]*Term
	next  int
	True  *Term
	False *Term
	fresh int
}

func NewCtx() *Ctx {
	c := &Ctx{tab: map[string]*Term{}}
	c.True = c.intern(&Term{Op: OTrue, Bool: true})
	c.False = c.intern(&Term{Op: OFalse, Bool: true})
	return c
}

func (c *Ctx) NumTerms() int { return c.next }

// ByID returns the interned term with the given id (nil if none).
func (c *Ctx) ByID(id int) *Term { return c.byID[id] }

// Learn records that the boolean term t holds on this path.
func (c *Ctx) Learn(t *Term) { c.learn(t, true) }

// LearnValue records the value of boolean term t on this path.
func (c *Ctx) LearnValue(t *Term, v bool) { c.learn(t, v) }

// IteConds returns the distinct ite conditions occurring in t that are not yet
// fixed by the path condition (at most max).
func (c *Ctx) IteConds(t *Term, max int) []*Term {
	var out []*Term
	seen := map[int]bool{}
	var rec func(x *Term)
	rec = func(x *Term) {
		if seen[x.ID] || len(out) >= max {
			return
		}
		seen[x.ID] = true
		if x.Op == OIte {
			if _, ok := c.known[x.Args[0].ID]; !ok {
				dup := false
				for _, o := range out {
					if o == x.Args[0] {
						dup = true
					}
				}
				if !dup {
					out = append(out, x.Args[0])
				}
			}
		}
		for _, a := range x.Args {
			rec(a)
		}
	}
	rec(t)
	return out
}

func (c *Ctx) learn(t *Term, v bool) {
	if c.known == nil {
		c.known = map[int]bool{}
	}
	switch {
	case t.Op == ONot:
		c.learn(t.Args[0], !v)
		return
	case t.Op == OAnd && v, t.Op == OOr && !v:
		for _, a := range t.Args {
			c.learn(a, v)
		}
	}
	if _, ok := c.known[t.ID]; !ok {
		c.known[t.ID] = v
		c.knownVer++
	}
}

// Resolve rewrites t, replacing every ite whose condition is fixed by the path
// condition with the selected branch.
func (c *Ctx) Resolve(t *Term) *Term {
	if len(c.known) == 0 {
		return t
	}
	if c.resVer != c.knownVer || c.resMemo == nil {
		c.resMemo = map[int]*Term{}
		c.resVer = c.knownVer
	}
	return c.resolve(t)
}

func (c *Ctx) resolve(t *Term) *Term {
	if len(t.Args) == 0 {
		return t
	}
	if r, ok := c.resMemo[t.ID]; ok {
		return r
	}
	var r *Term
	if t.Bool {
		if v, ok := c.known[t.ID]; ok {
			r = c.BoolC(v)
			c.resMemo[t.ID] = r
			return r
		}
	}
	args := make([]*Term, len(t.Args))
	changed := false
	for i, a := range t.Args {
		args[i] = c.resolve(a)
		if args[i] != a {
			changed = true
		}
	}
	if !changed {
		r = t
	} else {
		switch t.Op {
		case OLin:
			l := newLin()
			l.c.Set(t.C)
			for i, a := range args {
				l.add(a, t.Coef[i])
			}
			r = c.buildLin(l)
		case OMul:
			r = c.Mul(args[0], args[1])
		case ODiv:
			r = c.Div(args[0], args[1])
		case OMod:
			r = c.Mod(args[0], args[1])
		case OIte:
			r = c.Ite(args[0], args[1], args[2])
		case OBitAnd:
			r = c.BitAnd(args[0], args[1], t.W)
		case OBitOr:
			r = c.BitOr(args[0], args[1], t.W)
		case OBitXor:
			r = c.BitXor(args[0], args[1], t.W)
		case OEq:
			r = c.Eq(args[0], args[1])
		case OLe:
			r = c.Le(args[0], args[1])
		case ONot:
			r = c.Not(args[0])
		case OAnd:
			r = c.And(args...)
		case OOr:
			r = c.Or(args...)
		default:
			r = t
		}
	}
	c.resMemo[t.ID] = r
	return r
}

func key(t *Term) string {
	var sb strings.Builder
	fmt.Fprintf(&sb, "%d|", t.Op)
	if t.C != nil {
		sb.WriteString(t.C.String())
	}
	sb.WriteByte('|')
	sb.WriteString(t.Name)
	if t.W != 0 {
		fmt.Fprintf(&sb, "w%d", t.W)
	}
	for i, a := range t.Args {
		fmt.Fprintf(&sb, ",%d", a.ID)
		if t.Coef != nil {
			sb.WriteByte('*')
			sb.WriteString(t.Coef[i].String())
		}
	}
	return sb.String()
}

func (c *Ctx) intern(t *Term) *Term {
	k := key(t)
	if o, ok := c.tab[k]; ok {
		return o
	}
	c.next++
	t.ID = c.next
	c.tab[k] = t
	if c.byID == nil {
		c.byID = map[int]*Term{}
	}
	c.byID[t.ID] = t
	return t
}

var (
	big0  = big.NewInt(0)
	big1  = big.NewInt(1)
	bigM1 = big.NewInt(-1)
)

func B(v int64) *big.Int { return big.NewInt(v) }
func Pow2(k int) *big.Int { return new(big.Int).Lsh(big1, uint(k)) }
func Pow10(k int) *big.Int {
	return new(big.Int).Exp(big.NewInt(10), big.NewInt(int64(k)), nil)
}

func tzOf(v *big.Int) int {
	if v.Sign() == 0 {
		return 1 << 30
	}
	return int(new(big.Int).Abs(v).TrailingZeroBits())
}

func (c *Ctx) Const(v *big.Int) *Term {
	v = new(big.Int).Set(v)
	return c.intern(&Term{Op: OConst, C: v, Lo: v, Hi: v, TZ: tzOf(v)})
}
func (c *Ctx) Int(v int64) *Term   { return c.Const(big.NewInt(v)) }
func (c *Ctx) Uint(v uint64) *Term { return c.Const(new(big.Int).SetUint64(v)) }
func (c *Ctx) BoolC(b bool) *Term {
	if b {
		return c.True
	}
	return c.False
}

// Var creates (or returns) the integer variable name with the given bounds.
func (c *Ctx) Var(name string, lo, hi *big.Int) *Term {
	if lo != nil && hi != nil && lo.Cmp(hi) == 0 {
		// still a variable for naming purposes? no: a constant
		return c.Const(lo)
	}
	t := &Term{Op: OVar, Name: name, Lo: lo, Hi: hi}
	k := key(t)
	if o, ok := c.tab[k]; ok {
		return o
	}
	return c.intern(t)
}

func (c *Ctx) Fresh(prefix string, lo, hi *big.Int) *Term {
	c.fresh++
	return c.Var(fmt.Sprintf("%s!%d", prefix, c.fresh), lo, hi)
}

func (c *Ctx) BVar(name string) *Term {
	return c.intern(&Term{Op: OBVar, Name: name, Bool: true})
}

func (t *Term) IsConst() bool { return t.Op == OConst }
func (t *Term) IsTrue() bool  { return t.Op == OTrue }
func (t *Term) IsFalse() bool { return t.Op == OFalse }
func (t *Term) IsBoolConst() bool {
	return t.Op == OTrue || t.Op == OFalse
}

// Int64 returns the constant value (panics if not const or does not fit).
func (t *Term) Int64() int64 {
	if t.Op != OConst || !t.C.IsInt64() {
		panic("term: Int64 of non-constant " + t.String())
	}
	return t.C.Int64()
}

// ---------------------------------------------------------------- intervals

func addB(a, b *big.Int) *big.Int {
	if a == nil || b == nil {
		return nil
	}
	return new(big.Int).Add(a, b)
}
func mulBC(a *big.Int, k *big.Int) *big.Int {
	if a == nil {
		return nil
	}
	return new(big.Int).Mul(a, k)
}
func minB(a, b *big.Int) *big.Int { // nil = -inf
	if a == nil || b == nil {
		return nil
	}
	if a.Cmp(b) < 0 {
		return a
	}
	return b
}
func maxB(a, b *big.Int) *big.Int { // nil = +inf
	if a == nil || b == nil {
		return nil
	}
	if a.Cmp(b) > 0 {
		return a
	}
	return b
}

func (t *Term) NonNeg() bool { return t.Lo != nil && t.Lo.Sign() >= 0 }
func (t *Term) HiLt(v *big.Int) bool {
	return t.Hi != nil && t.Hi.Cmp(v) < 0
}
func (t *Term) HiLe(v *big.Int) bool {
	return t.Hi != nil && t.Hi.Cmp(v) <= 0
}
func (t *Term) LoGe(v *big.Int) bool {
	return t.Lo != nil && t.Lo.Cmp(v) >= 0
}
func (t *Term) In(lo, hi *big.Int) bool { return t.LoGe(lo) && t.HiLe(hi) }

// ---------------------------------------------------------------- linear

type linAcc struct {
	c     *big.Int
	terms map[int]*Term
	coef  map[int]*big.Int
}

func newLin() *linAcc {
	return &linAcc{c: new(big.Int), terms: map[int]*Term{}, coef: map[int]*big.Int{}}
}

func (l *linAcc) add(t *Term, k *big.Int) {
	if k.Sign() == 0 {
		return
	}
	switch t.Op {
	case OConst:
		l.c.Add(l.c, new(big.Int).Mul(t.C, k))
	case OLin:
		l.c.Add(l.c, new(big.Int).Mul(t.C, k))
		for i, a := range t.Args {
			l.add(a, new(big.Int).Mul(t.Coef[i], k))
		}
	default:
		if o, ok := l.coef[t.ID]; ok {
			o.Add(o, k)
			if o.Sign() == 0 {
				delete(l.coef, t.ID)
				delete(l.terms, t.ID)
			}
		} else {
			l.terms[t.ID] = t
			l.coef[t.ID] = new(big.Int).Set(k)
		}
	}
}

// sliceOf recognises digit slices of a base term X:
//
//	(X div a) mod m  -> [a, a*m)     X mod m -> [1, m)     X div a -> [a, inf)
func sliceOf(t *Term) (X *Term, a, hi *big.Int, ok bool) {
	switch t.Op {
	case OMod:
		if !t.Args[1].IsConst() {
			return
		}
		m := t.Args[1].C
		in := t.Args[0]
		if in.Op == ODiv && in.Args[1].IsConst() {
			return in.Args[0], in.Args[1].C, new(big.Int).Mul(in.Args[1].C, m), true
		}
		return in, big1, m, true
	case ODiv:
		if !t.Args[1].IsConst() {
			return
		}
		return t.Args[0], t.Args[1].C, nil, true
	}
	return
}

// mergeSlices joins adjacent digit slices of the same base that occur with
// matching weights: k*a1*slice[a1,b) + k*b*slice[b,c) = k*a1*slice[a1,c).
func (c *Ctx) mergeSlices(l *linAcc) bool {
	type sl struct {
		id    int
		X     *Term
		a, hi *big.Int
		coef  *big.Int
	}
	byX := map[int][]sl{}
	for id, t := range l.terms {
		X, a, hi, ok := sliceOf(t)
		if !ok {
			continue
		}
		byX[X.ID] = append(byX[X.ID], sl{id, X, a, hi, l.coef[id]})
	}
	for _, g := range byX {
		if len(g) < 2 {
			continue
		}
		for i := range g {
			for j := range g {
				if i == j || g[i].hi == nil || g[i].hi.Cmp(g[j].a) != 0 {
					continue
				}
				// weights: coef_i / a_i == coef_j / a_j
				if new(big.Int).Mul(g[i].coef, g[j].a).Cmp(new(big.Int).Mul(g[j].coef, g[i].a)) != 0 {
					continue
				}
				X, a, hi, k := g[i].X, g[i].a, g[j].hi, new(big.Int).Set(g[i].coef)
				delete(l.terms, g[i].id)
				delete(l.coef, g[i].id)
				delete(l.terms, g[j].id)
				delete(l.coef, g[j].id)
				var nt *Term
				switch {
				case hi == nil && a.Cmp(big1) == 0:
					nt = X
				case hi == nil:
					nt = c.DivC(X, a)
				case a.Cmp(big1) == 0:
					nt = c.ModC(X, hi)
				default:
					nt = c.ModC(c.DivC(X, a), new(big.Int).Quo(hi, a))
				}
				l.add(nt, k)
				return true
			}
		}
	}
	return false
}

func (c *Ctx) buildLin(l *linAcc) *Term {
	for n := 0; n < 64 && len(l.terms) >= 2 && c.mergeSlices(l); n++ {
	}
	// rule: k*c*Div(X,c) + k*Mod(X,c) -> k*X  (c constant)
	for changed := true; changed; {
		changed = false
		for id, t := range l.terms {
			if t.Op != OMod || !t.Args[1].IsConst() {
				continue
			}
			k := l.coef[id]
			d := c.rawDivMod(ODiv, t.Args[0], t.Args[1])
			if d == nil {
				continue
			}
			kd, ok := l.coef[d.ID]
			if !ok {
				continue
			}
			want := new(big.Int).Mul(k, t.Args[1].C)
			if kd.Cmp(want) != 0 {
				continue
			}
			kk := new(big.Int).Set(k)
			delete(l.coef, id)
			delete(l.terms, id)
			delete(l.coef, d.ID)
			delete(l.terms, d.ID)
			l.add(t.Args[0], kk)
			changed = true
			break
		}
	}
	// rule: several Ite with the same condition -> merge if branches collapse
	byCond := map[int][]int{}
	for id, t := range l.terms {
		if t.Op == OIte && !t.Bool {
			byCond[t.Args[0].ID] = append(byCond[t.Args[0].ID], id)
		}
	}
	for _, ids := range byCond {
		if len(ids) < 2 {
			continue
		}
		sort.Ints(ids)
		la, lb := newLin(), newLin()
		var cond *Term
		for _, id := range ids {
			t := l.terms[id]
			cond = t.Args[0]
			la.add(t.Args[1], l.coef[id])
			lb.add(t.Args[2], l.coef[id])
		}
		// include the rest so that cancellation with non-ite parts is seen
		rest := newLin()
		rest.c.Set(l.c)
		for id, t := range l.terms {
			skip := false
			for _, x := range ids {
				if x == id {
					skip = true
				}
			}
			if !skip {
				rest.add(t, l.coef[id])
			}
		}
		ra := c.buildLin(mergeLin(la, rest))
		rb := c.buildLin(mergeLin(lb, rest))
		if ra == rb {
			return ra
		}
		if size(ra)+size(rb) <= 2+sizeLin(l) {
			return c.Ite(cond, ra, rb)
		}
	}
	if len(l.terms) == 0 {
		return c.Const(l.c)
	}
	if len(l.terms) == 1 {
		for id, t := range l.terms {
			// k*ite(c, a, b) + d with constant a, b  ->  ite(c, k*a+d, k*b+d)
			if t.Op == OIte && !t.Bool && (t.Args[1].IsConst() && t.Args[2].IsConst()) {
				k := l.coef[id]
				a := new(big.Int).Add(new(big.Int).Mul(t.Args[1].C, k), l.c)
				b := new(big.Int).Add(new(big.Int).Mul(t.Args[2].C, k), l.c)
				return c.Ite(t.Args[0], c.Const(a), c.Const(b))
			}
		}
	}
	ids := make([]int, 0, len(l.terms))
	for id := range l.terms {
		ids = append(ids, id)
	}
	sort.Ints(ids)
	if len(ids) == 1 && l.c.Sign() == 0 && l.coef[ids[0]].Cmp(big1) == 0 {
		return l.terms[ids[0]]
	}
	t := &Term{Op: OLin, C: new(big.Int).Set(l.c)}
	lo, hi := new(big.Int).Set(l.c), new(big.Int).Set(l.c)
	tz := tzOf(l.c)
	for _, id := range ids {
		a, k := l.terms[id], l.coef[id]
		t.Args = append(t.Args, a)
		t.Coef = append(t.Coef, k)
		var alo, ahi *big.Int
		if k.Sign() > 0 {
			alo, ahi = mulBC(a.Lo, k), mulBC(a.Hi, k)
		} else {
			alo, ahi = mulBC(a.Hi, k), mulBC(a.Lo, k)
		}
		lo, hi = addB(lo, alo), addB(hi, ahi)
		if z := a.TZ + tzOf(k); z < tz {
			tz = z
		}
	}
	t.Lo, t.Hi, t.TZ = lo, hi, tz
	return c.intern(t)
}

func mergeLin(a, b *linAcc) *linAcc {
	r := newLin()
	r.c.Add(a.c, b.c)
	for id, t := range a.terms {
		r.add(t, a.coef[id])
	}
	for id, t := range b.terms {
		r.add(t, b.coef[id])
	}
	return r
}

func size(t *Term) int {
	n := 1
	for _, a := range t.Args {
		if a.Op != OConst && a.Op != OVar {
			n++
		}
	}
	return n + len(t.Args)
}
func sizeLin(l *linAcc) int { return 1 + 2*len(l.terms) }

func (c *Ctx) Add(a, b *Term) *Term {
	l := newLin()
	l.add(a, big1)
	l.add(b, big1)
	return c.buildLin(l)
}
func (c *Ctx) Sub(a, b *Term) *Term {
	l := newLin()
	l.add(a, big1)
	l.add(b, bigM1)
	return c.buildLin(l)
}
func (c *Ctx) Neg(a *Term) *Term { return c.MulC(a, bigM1) }
func (c *Ctx) MulC(a *Term, k *big.Int) *Term {
	l := newLin()
	l.add(a, k)
	return c.buildLin(l)
}
func (c *Ctx) AddC(a *Term, k *big.Int) *Term {
	l := newLin()
	l.add(a, big1)
	l.c.Add(l.c, k)
	return c.buildLin(l)
}
func (c *Ctx) Sum(ts ...*Term) *Term {
	l := newLin()
	for _, t := range ts {
		l.add(t, big1)
	}
	return c.buildLin(l)
}

// Mul multiplies two terms; products of linear forms are distributed so that
// the only nonlinear atoms are products of two non-linear-form terms.
func (c *Ctx) Mul(a, b *Term) *Term {
	if a.Op != OConst && b.Op != OConst && len(c.known) > 0 {
		a, b = c.Resolve(a), c.Resolve(b)
	}
	if a.Op == OConst {
		return c.MulC(b, a.C)
	}
	if b.Op == OConst {
		return c.MulC(a, b.C)
	}
	if a.Op == OIte && size(b) <= 3 {
		return c.Ite(a.Args[0], c.Mul(a.Args[1], b), c.Mul(a.Args[2], b))
	}
	if b.Op == OIte && size(a) <= 3 {
		return c.Ite(b.Args[0], c.Mul(a, b.Args[1]), c.Mul(a, b.Args[2]))
	}
	if a.Op == OLin || b.Op == OLin {
		l := newLin()
		ac, aa, ak := decompose(a)
		bc, ba, bk := decompose(b)
		if len(aa)*len(ba) <= 256 {
			l.c.Mul(ac, bc)
			for i, x := range aa {
				l.add(x, new(big.Int).Mul(ak[i], bc))
			}
			for j, y := range ba {
				l.add(y, new(big.Int).Mul(bk[j], ac))
			}
			for i, x := range aa {
				for j, y := range ba {
					l.add(c.mulAtom(x, y), new(big.Int).Mul(ak[i], bk[j]))
				}
			}
			return c.buildLin(l)
		}
	}
	return c.mulAtom(a, b)
}

func decompose(t *Term) (*big.Int, []*Term, []*big.Int) {
	if t.Op == OLin {
		return t.C, t.Args, t.Coef
	}
	if t.Op == OConst {
		return t.C, nil, nil
	}
	return big0, []*Term{t}, []*big.Int{big1}
}

func (c *Ctx) mulAtom(a, b *Term) *Term {
	if a.Op == OConst || b.Op == OConst || a.Op == OLin || b.Op == OLin {
		return c.Mul(a, b)
	}
	if a.ID > b.ID {
		a, b = b, a
	}
	t := &Term{Op: OMul, Args: []*Term{a, b}, TZ: a.TZ + b.TZ}
	if a.Lo != nil && a.Hi != nil && b.Lo != nil && b.Hi != nil {
		p := []*big.Int{
			new(big.Int).Mul(a.Lo, b.Lo), new(big.Int).Mul(a.Lo, b.Hi),
			new(big.Int).Mul(a.Hi, b.Lo), new(big.Int).Mul(a.Hi, b.Hi)}
		lo, hi := p[0], p[0]
		for _, x := range p[1:] {
			if x.Cmp(lo) < 0 {
				lo = x
			}
			if x.Cmp(hi) > 0 {
				hi = x
			}
		}
		t.Lo, t.Hi = lo, hi
	} else if a.NonNeg() && b.NonNeg() {
		t.Lo = new(big.Int).Mul(a.Lo, b.Lo)
	}
	if t.TZ > 1<<20 {
		t.TZ = 1 << 20
	}
	return c.intern(t)
}

// ---------------------------------------------------------------- div / mod

func floorDiv(a, b *big.Int) *big.Int {
	q, m := new(big.Int).DivMod(a, b, new(big.Int)) // Euclidean; b>0 => floor
	_ = m
	return q
}

// rawDivMod looks up an existing interned node without creating it (used by the
// recombination rule); returns nil when absent.
func (c *Ctx) rawDivMod(op Op, a, b *Term) *Term {
	t := &Term{Op: op, Args: []*Term{a, b}}
	if o, ok := c.tab[key(t)]; ok {
		return o
	}
	return nil
}

// Div is floor division; the divisor must be known positive.
func (c *Ctx) Div(a, b *Term) *Term {
	if b.Op == OConst {
		return c.DivC(a, b.C)
	}
	if a.Op == OConst && a.C.Sign() == 0 {
		return a
	}
	t := &Term{Op: ODiv, Args: []*Term{a, b}}
	if a.NonNeg() {
		t.Lo = big0
		if a.Hi != nil {
			if b.Lo != nil && b.Lo.Sign() > 0 {
				t.Hi = floorDiv(a.Hi, b.Lo)
			} else {
				t.Hi = a.Hi
			}
		}
	}
	return c.intern(t)
}

func (c *Ctx) Mod(a, b *Term) *Term {
	if b.Op == OConst {
		return c.ModC(a, b.C)
	}
	if a.Op == OConst && a.C.Sign() == 0 {
		return a
	}
	t := &Term{Op: OMod, Args: []*Term{a, b}, Lo: big0}
	if b.Hi != nil {
		t.Hi = new(big.Int).Sub(b.Hi, big1)
		if a.NonNeg() && a.Hi != nil && a.Hi.Cmp(t.Hi) < 0 {
			t.Hi = a.Hi
		}
	}
	return c.intern(t)
}

// splitMultiple writes a = k*A + R where every coefficient of A-part is a
// multiple of k; returns (A, R).
func (c *Ctx) splitMultiple(a *Term, k *big.Int) (*Term, *Term) {
	cst, args, coef := decompose(a)
	la, lr := newLin(), newLin()
	q, r := new(big.Int).DivMod(cst, k, new(big.Int))
	la.c.Set(q)
	lr.c.Set(r)
	for i, x := range args {
		q, r := new(big.Int).QuoRem(coef[i], k, new(big.Int))
		if r.Sign() == 0 {
			la.add(x, q)
		} else {
			lr.add(x, coef[i])
		}
	}
	return c.buildLin(la), c.buildLin(lr)
}

// isWordLike: a single atom (word, slice) whose range exceeds k by a small
// factor only, so that its division by k is a digit slice of the atom itself.
func isWordLike(t *Term, k *big.Int) bool {
	if t.Op == OLin || t.Op == OConst || t.Op == OMul {
		return false
	}
	if t.Lo == nil || t.Hi == nil || t.Lo.Sign() < 0 {
		return false
	}
	return t.Hi.Cmp(new(big.Int).Lsh(k, 70)) < 0
}

// scaledSplit finds g (1 < g < k, g | k) with a = g*A + B and 0 <= B < g.
func (c *Ctx) scaledSplit(a *Term, k *big.Int) (*big.Int, *Term, *Term, bool) {
	if a.Op != OLin {
		return nil, nil, nil, false
	}
	var best *big.Int
	for _, co := range a.Coef {
		g := new(big.Int).Abs(co)
		if g.Cmp(big1) <= 0 || g.Cmp(k) >= 0 || new(big.Int).Mod(k, g).Sign() != 0 {
			continue
		}
		if best == nil || g.Cmp(best) > 0 {
			A, B := c.splitMultiple(a, g)
			if B.Lo != nil && B.Hi != nil && B.Lo.Sign() >= 0 && B.Hi.Cmp(g) < 0 && !(A.Op == OConst && A.C.Sign() == 0) {
				best = g
			}
		}
	}
	if best == nil {
		return nil, nil, nil, false
	}
	A, B := c.splitMultiple(a, best)
	return best, A, B, true
}

func (c *Ctx) DivC(a *Term, k *big.Int) *Term {
	if k.Sign() <= 0 {
		panic("term: DivC by non-positive constant")
	}
	if k.Cmp(big1) == 0 {
		return a
	}
	if a.Op == OConst {
		return c.Const(floorDiv(a.C, k))
	}
	if a.Lo != nil && a.Hi != nil {
		ql, qh := floorDiv(a.Lo, k), floorDiv(a.Hi, k)
		if ql.Cmp(qh) == 0 {
			return c.Const(ql)
		}
	}
	A, R := c.splitMultiple(a, k)
	if !(A.Op == OConst && A.C.Sign() == 0) {
		if R.Lo != nil && R.Hi != nil && R.Lo.Sign() >= 0 && R.Hi.Cmp(k) < 0 {
			return A
		}
		if R.Lo != nil && R.Hi != nil && isWordLike(R, k) {
			// a div k = A + (R div k): R is a single word-like atom, so the
			// remaining division is a digit slice of that atom's own base
			return c.Add(A, c.DivC(R, k))
		}
	}
	if a.Op == OIte && (a.Args[1].IsConst() || a.Args[2].IsConst()) {
		return c.Ite(a.Args[0], c.DivC(a.Args[1], k), c.DivC(a.Args[2], k))
	}
	// (x mod m) div k = (x div k) mod (m/k) when k | m   (canonical slice form)
	if a.Op == OMod && a.Args[1].IsConst() && new(big.Int).Mod(a.Args[1].C, k).Sign() == 0 {
		return c.ModC(c.DivC(a.Args[0], k), new(big.Int).Quo(a.Args[1].C, k))
	}
	// (g*A + B) div k = A div (k/g) when g | k and 0 <= B < g
	if g, A, _, ok := c.scaledSplit(a, k); ok {
		return c.DivC(A, new(big.Int).Quo(k, g))
	}
	// (x div m) div k = x div (m*k)
	if a.Op == ODiv && a.Args[1].IsConst() {
		return c.DivC(a.Args[0], new(big.Int).Mul(a.Args[1].C, k))
	}
	t := &Term{Op: ODiv, Args: []*Term{a, c.Const(k)}}
	if a.Lo != nil {
		t.Lo = floorDiv(a.Lo, k)
	}
	if a.Hi != nil {
		t.Hi = floorDiv(a.Hi, k)
	}
	if a.TZ < 1<<20 && k.Cmp(Pow2(tzOf(k))) == 0 && a.TZ >= tzOf(k) {
		t.TZ = a.TZ - tzOf(k)
	}
	return c.intern(t)
}

func (c *Ctx) ModC(a *Term, k *big.Int) *Term {
	if k.Sign() <= 0 {
		panic("term: ModC by non-positive constant")
	}
	if k.Cmp(big1) == 0 {
		return c.Int(0)
	}
	if a.Op == OConst {
		return c.Const(new(big.Int).Mod(a.C, k))
	}
	if a.Lo != nil && a.Hi != nil && a.Lo.Sign() >= 0 && a.Hi.Cmp(k) < 0 {
		return a
	}
	if a.Lo != nil && a.Hi != nil {
		ql, qh := floorDiv(a.Lo, k), floorDiv(a.Hi, k)
		if ql.Cmp(qh) == 0 {
			return c.AddC(a, new(big.Int).Neg(new(big.Int).Mul(ql, k)))
		}
	}
	A, R := c.splitMultiple(a, k)
	if !(A.Op == OConst && A.C.Sign() == 0) {
		if R.Lo != nil && R.Hi != nil && (isWordLike(R, k) || (R.Lo.Sign() >= 0 && R.Hi.Cmp(k) < 0)) {
			return c.ModC(R, k)
		}
	}
	if a.Op == OIte && (a.Args[1].IsConst() || a.Args[2].IsConst()) {
		return c.Ite(a.Args[0], c.ModC(a.Args[1], k), c.ModC(a.Args[2], k))
	}
	// (g*A + B) mod k = g*(A mod (k/g)) + B when g | k and 0 <= B < g
	if g, A, B, ok := c.scaledSplit(a, k); ok {
		return c.Add(c.MulC(c.ModC(A, new(big.Int).Quo(k, g)), g), B)
	}
	// (x mod m) mod k = x mod k when k | m
	if a.Op == OMod && a.Args[1].IsConst() && new(big.Int).Mod(a.Args[1].C, k).Sign() == 0 {
		return c.ModC(a.Args[0], k)
	}
	t := &Term{Op: OMod, Args: []*Term{a, c.Const(k)}, Lo: big0, Hi: new(big.Int).Sub(k, big1)}
	if a.TZ < 1<<20 && k.Cmp(Pow2(tzOf(k))) == 0 {
		t.TZ = a.TZ
		if t.TZ > tzOf(k) {
			t.TZ = 1 << 20
		}
	}
	return c.intern(t)
}

// ---------------------------------------------------------------- ite / bool

func (c *Ctx) Ite(cond, a, b *Term) *Term {
	if cond.IsTrue() {
		return a
	}
	if cond.IsFalse() {
		return b
	}
	if a == b {
		return a
	}
	if a.Bool {
		if a.IsTrue() && b.IsFalse() {
			return cond
		}
		if a.IsFalse() && b.IsTrue() {
			return c.Not(cond)
		}
		if a.IsTrue() {
			return c.Or(cond, b)
		}
		if a.IsFalse() {
			return c.And(c.Not(cond), b)
		}
		if b.IsTrue() {
			return c.Or(c.Not(cond), a)
		}
		if b.IsFalse() {
			return c.And(cond, a)
		}
		return c.intern(&Term{Op: OIte, Bool: true, Args: []*Term{cond, a, b}})
	}
	if cond.Op == ONot {
		return c.Ite(cond.Args[0], b, a)
	}
	// nested ite with the same condition
	if a.Op == OIte && a.Args[0] == cond {
		a = a.Args[1]
	}
	if b.Op == OIte && b.Args[0] == cond {
		b = b.Args[2]
	}
	if a == b {
		return a
	}
	t := &Term{Op: OIte, Args: []*Term{cond, a, b}}
	t.Lo, t.Hi = minB(a.Lo, b.Lo), maxB(a.Hi, b.Hi)
	t.TZ = a.TZ
	if b.TZ < t.TZ {
		t.TZ = b.TZ
	}
	return c.intern(t)
}

func (c *Ctx) Not(a *Term) *Term {
	switch a.Op {
	case OTrue:
		return c.False
	case OFalse:
		return c.True
	case ONot:
		return a.Args[0]
	}
	return c.intern(&Term{Op: ONot, Bool: true, Args: []*Term{a}})
}

func (c *Ctx) nary(op Op, unit, zero *Term, ts []*Term) *Term {
	seen := map[int]bool{}
	var out []*Term
	var rec func(t *Term) bool
	rec = func(t *Term) bool {
		if t == zero {
			return false
		}
		if t == unit {
			return true
		}
		if t.Op == op {
			for _, a := range t.Args {
				if !rec(a) {
					return false
				}
			}
			return true
		}
		if !seen[t.ID] {
			seen[t.ID] = true
			out = append(out, t)
		}
		return true
	}
	for _, t := range ts {
		if !rec(t) {
			return zero
		}
	}
	for _, t := range out {
		if t.Op == ONot && seen[t.Args[0].ID] {
			return zero
		}
	}
	if len(out) == 0 {
		return unit
	}
	if len(out) == 1 {
		return out[0]
	}
	sort.Slice(out, func(i, j int) bool { return out[i].ID < out[j].ID })
	return c.intern(&Term{Op: op, Bool: true, Args: out})
}

func (c *Ctx) And(ts ...*Term) *Term { return c.nary(OAnd, c.True, c.False, ts) }
func (c *Ctx) Or(ts ...*Term) *Term  { return c.nary(OOr, c.False, c.True, ts) }
func (c *Ctx) Implies(a, b *Term) *Term {
	return c.Or(c.Not(a), b)
}
func (c *Ctx) Iff(a, b *Term) *Term {
	if a == b {
		return c.True
	}
	if a.IsBoolConst() {
		if a.IsTrue() {
			return b
		}
		return c.Not(b)
	}
	if b.IsBoolConst() {
		if b.IsTrue() {
			return a
		}
		return c.Not(a)
	}
	return c.Ite(a, b, c.Not(b))
}

// Eq / Le / Lt on integers. Comparison is on a-b normalised to "d op 0".
func (c *Ctx) Eq(a, b *Term) *Term {
	if a.Bool {
		return c.Iff(a, b)
	}
	if a == b {
		return c.True
	}
	// (x|y) == 0  <=>  x==0 && y==0
	if b.Op == OConst && b.C.Sign() == 0 && a.Op == OBitOr {
		return c.And(c.Eq(a.Args[0], b), c.Eq(a.Args[1], b))
	}
	if a.Op == OConst && a.C.Sign() == 0 && b.Op == OBitOr {
		return c.Eq(b, a)
	}
	if a.Op == OIte && b.Op == OConst {
		if a.Args[1].IsConst() || a.Args[2].IsConst() {
			return c.Ite(a.Args[0], c.Eq(a.Args[1], b), c.Eq(a.Args[2], b))
		}
		ea, eb := c.Eq(a.Args[1], b), c.Eq(a.Args[2], b)
		if ea.IsBoolConst() || eb.IsBoolConst() {
			return c.Ite(a.Args[0], ea, eb)
		}
	}
	if b.Op == OIte && a.Op == OConst {
		return c.Eq(b, a)
	}
	d := c.Sub(a, b)
	if d.Op == OConst {
		return c.BoolC(d.C.Sign() == 0)
	}
	if (d.Lo != nil && d.Lo.Sign() > 0) || (d.Hi != nil && d.Hi.Sign() < 0) {
		return c.False
	}
	l, r := splitSides(c, d)
	return c.intern(&Term{Op: OEq, Bool: true, Args: []*Term{l, r}})
}

// splitSides turns d (== a-b) into (l, r) with l - r == d, moving negative
// coefficients to the right so the printed form is readable.
func splitSides(c *Ctx, d *Term) (*Term, *Term) {
	if d.Op != OLin {
		return d, c.Int(0)
	}
	ll, lr := newLin(), newLin()
	if d.C.Sign() >= 0 {
		ll.c.Set(d.C)
	} else {
		lr.c.Neg(d.C)
	}
	for i, a := range d.Args {
		if d.Coef[i].Sign() > 0 {
			ll.add(a, d.Coef[i])
		} else {
			lr.add(a, new(big.Int).Neg(d.Coef[i]))
		}
	}
	l, r := c.buildLin(ll), c.buildLin(lr)
	if l.ID > r.ID && false {
		return r, l
	}
	return l, r
}

func (c *Ctx) Le(a, b *Term) *Term {
	if a == b {
		return c.True
	}
	if a.Op == OIte && b.Op == OConst && a.Args[1].IsConst() && a.Args[2].IsConst() {
		return c.Ite(a.Args[0], c.Le(a.Args[1], b), c.Le(a.Args[2], b))
	}
	if b.Op == OIte && a.Op == OConst && b.Args[1].IsConst() && b.Args[2].IsConst() {
		return c.Ite(b.Args[0], c.Le(a, b.Args[1]), c.Le(a, b.Args[2]))
	}
	d := c.Sub(a, b) // d <= 0
	if d.Hi != nil && d.Hi.Sign() <= 0 {
		return c.True
	}
	if d.Lo != nil && d.Lo.Sign() > 0 {
		return c.False
	}
	l, r := splitSides(c, d)
	return c.intern(&Term{Op: OLe, Bool: true, Args: []*Term{l, r}})
}
func (c *Ctx) Lt(a, b *Term) *Term { return c.Not(c.Le(b, a)) }
func (c *Ctx) Ge(a, b *Term) *Term { return c.Le(b, a) }
func (c *Ctx) Gt(a, b *Term) *Term { return c.Not(c.Le(a, b)) }
func (c *Ctx) Ne(a, b *Term) *Term { return c.Not(c.Eq(a, b)) }

// ---------------------------------------------------------------- machine ints

// clamp intersects the interval of t with [lo, hi]; the caller guarantees that
// the value of t always lies in that range (a semantic fact about the term).
func (c *Ctx) clamp(t *Term, lo, hi *big.Int) *Term {
	if t.Op == OConst {
		return t
	}
	if t.Lo == nil || t.Lo.Cmp(lo) < 0 {
		t.Lo = lo
	}
	if t.Hi == nil || t.Hi.Cmp(hi) > 0 {
		t.Hi = hi
	}
	return t
}

// WrapU reduces a to [0, 2^w).
func (c *Ctx) WrapU(a *Term, w int) *Term {
	m := Pow2(w)
	if a.NonNeg() && a.HiLt(m) {
		return a
	}
	if a.Lo != nil && a.Hi != nil {
		m2 := new(big.Int).Lsh(m, 1)
		if a.Lo.Sign() >= 0 && a.Hi.Cmp(m2) < 0 && a.Op != OMul {
			return c.clamp(c.Ite(c.Ge(a, c.Const(m)), c.AddC(a, new(big.Int).Neg(m)), a), big0, new(big.Int).Sub(m, big1))
		}
		if a.Hi.Cmp(m) < 0 && a.Lo.Cmp(new(big.Int).Neg(m)) >= 0 {
			return c.clamp(c.Ite(c.Lt(a, c.Int(0)), c.AddC(a, m), a), big0, new(big.Int).Sub(m, big1))
		}
	}
	return c.ModC(a, m)
}

// WrapS reduces a to [-2^(w-1), 2^(w-1)).
func (c *Ctx) WrapS(a *Term, w int) *Term {
	h := Pow2(w - 1)
	nh := new(big.Int).Neg(h)
	if a.LoGe(nh) && a.HiLt(h) {
		return a
	}
	m := Pow2(w)
	if a.Lo != nil && a.Hi != nil {
		lo2 := new(big.Int).Sub(nh, m)
		hi2 := new(big.Int).Add(h, m)
		if a.Lo.Cmp(lo2) >= 0 && a.Hi.Cmp(hi2) < 0 {
			return c.clamp(c.Ite(c.Ge(a, c.Const(h)), c.AddC(a, new(big.Int).Neg(m)),
				c.Ite(c.Lt(a, c.Const(nh)), c.AddC(a, m), a)), nh, new(big.Int).Sub(h, big1))
		}
	}
	u := c.ModC(c.AddC(a, h), m)
	return c.AddC(u, nh)
}

func isPow2(v *big.Int) (int, bool) {
	if v.Sign() <= 0 {
		return 0, false
	}
	k := int(v.TrailingZeroBits())
	return k, v.BitLen() == k+1
}

// BitAnd of two non-negative values below 2^w.
func (c *Ctx) BitAnd(a, b *Term, w int) *Term {
	if a.Op == OConst && b.Op == OConst {
		return c.Const(new(big.Int).And(a.C, b.C))
	}
	if a.Op == OConst {
		a, b = b, a
	}
	full := new(big.Int).Sub(Pow2(w), big1)
	if b.Op == OConst {
		if b.C.Sign() == 0 {
			return b
		}
		if b.C.Cmp(full) == 0 {
			return a
		}
		// low mask
		if k, ok := isPow2(new(big.Int).Add(b.C, big1)); ok {
			return c.ModC(a, Pow2(k))
		}
		// a already within mask's low run and ... general: runs decomposition
		if a.Op == OIte {
			return c.Ite(a.Args[0], c.BitAnd(a.Args[1], b, w), c.BitAnd(a.Args[2], b, w))
		}
		// a in {0, full}?
		if x, ok := asMask(c, a, full); ok {
			return c.Ite(x, b, c.Int(0))
		}
		// runs of ones in b
		var parts []*Term
		i := 0
		for i < b.C.BitLen() {
			if b.C.Bit(i) == 0 {
				i++
				continue
			}
			j := i
			for j < b.C.BitLen() && b.C.Bit(j) == 1 {
				j++
			}
			seg := c.ModC(c.DivC(a, Pow2(i)), Pow2(j-i))
			parts = append(parts, c.MulC(seg, Pow2(i)))
			i = j
		}
		return c.Sum(parts...)
	}
	// both symbolic
	if a.In(big0, big1) && b.In(big0, big1) {
		return c.Ite(c.And(c.Eq(a, c.Int(1)), c.Eq(b, c.Int(1))), c.Int(1), c.Int(0))
	}
	if x, ok := asMask(c, a, full); ok {
		return c.Ite(x, b, c.Int(0))
	}
	if x, ok := asMask(c, b, full); ok {
		return c.Ite(x, a, c.Int(0))
	}
	if a.Op == OIte && a.Args[1].IsConst() && a.Args[2].IsConst() {
		return c.Ite(a.Args[0], c.BitAnd(a.Args[1], b, w), c.BitAnd(a.Args[2], b, w))
	}
	if b.Op == OIte && b.Args[1].IsConst() && b.Args[2].IsConst() {
		return c.Ite(b.Args[0], c.BitAnd(a, b.Args[1], w), c.BitAnd(a, b.Args[2], w))
	}
	if a.ID > b.ID {
		a, b = b, a
	}
	t := &Term{Op: OBitAnd, W: w, Args: []*Term{a, b}, Lo: big0, Hi: minB(a.Hi, b.Hi)}
	return c.intern(t)
}

// asMask recognises terms that are syntactically 0-or-all-ones and returns the
// condition under which they are all-ones.
func asMask(c *Ctx, a *Term, full *big.Int) (*Term, bool) {
	if a.Op == OIte && a.Args[1].IsConst() && a.Args[2].IsConst() {
		x, y := a.Args[1].C, a.Args[2].C
		if x.Cmp(full) == 0 && y.Sign() == 0 {
			return a.Args[0], true
		}
		if y.Cmp(full) == 0 && x.Sign() == 0 {
			return c.Not(a.Args[0]), true
		}
	}
	return nil, false
}

func (c *Ctx) BitOr(a, b *Term, w int) *Term {
	if a.Op == OConst && b.Op == OConst {
		return c.Const(new(big.Int).Or(a.C, b.C))
	}
	if a.Op == OConst && a.C.Sign() == 0 {
		return b
	}
	if b.Op == OConst && b.C.Sign() == 0 {
		return a
	}
	// disjoint bit ranges -> addition
	if b.Hi != nil && a.TZ < 1<<20 && b.NonNeg() && b.Hi.Cmp(Pow2(a.TZ)) < 0 {
		return c.Add(a, b)
	}
	if a.Hi != nil && b.TZ < 1<<20 && a.NonNeg() && a.Hi.Cmp(Pow2(b.TZ)) < 0 {
		return c.Add(a, b)
	}
	if a.In(big0, big1) && b.In(big0, big1) {
		return c.Ite(c.Or(c.Eq(a, c.Int(1)), c.Eq(b, c.Int(1))), c.Int(1), c.Int(0))
	}
	if a.Op == OIte && a.Args[1].IsConst() && a.Args[2].IsConst() {
		return c.Ite(a.Args[0], c.BitOr(a.Args[1], b, w), c.BitOr(a.Args[2], b, w))
	}
	if b.Op == OIte && b.Args[1].IsConst() && b.Args[2].IsConst() {
		return c.Ite(b.Args[0], c.BitOr(a, b.Args[1], w), c.BitOr(a, b.Args[2], w))
	}
	if a.ID > b.ID {
		a, b = b, a
	}
	t := &Term{Op: OBitOr, W: w, Args: []*Term{a, b}, Lo: maxB(a.Lo, b.Lo), Hi: new(big.Int).Sub(Pow2(w), big1)}
	if a.Hi != nil && b.Hi != nil {
		n := a.Hi.BitLen()
		if b.Hi.BitLen() > n {
			n = b.Hi.BitLen()
		}
		t.Hi = new(big.Int).Sub(Pow2(n), big1)
	}
	return c.intern(t)
}

func (c *Ctx) BitXor(a, b *Term, w int) *Term {
	if a.Op == OConst && b.Op == OConst {
		return c.Const(new(big.Int).Xor(a.C, b.C))
	}
	full := new(big.Int).Sub(Pow2(w), big1)
	if b.Op == OConst && b.C.Cmp(full) == 0 {
		return c.Sub(c.Const(full), a) // ^a
	}
	if a.Op == OConst && a.C.Cmp(full) == 0 {
		return c.Sub(c.Const(full), b)
	}
	if a.Op == OConst && a.C.Sign() == 0 {
		return b
	}
	if b.Op == OConst && b.C.Sign() == 0 {
		return a
	}
	if a.In(big0, big1) && b.In(big0, big1) {
		return c.Ite(c.Eq(a, b), c.Int(0), c.Int(1))
	}
	if a.ID > b.ID {
		a, b = b, a
	}
	return c.intern(&Term{Op: OBitXor, W: w, Args: []*Term{a, b}, Lo: big0, Hi: full})
}

// ---------------------------------------------------------------- printing

func (t *Term) String() string {
	var sb strings.Builder
	t.write(&sb, 0)
	return sb.String()
}

func (t *Term) write(sb *strings.Builder, depth int) {
	if depth > 6 {
		fmt.Fprintf(sb, "#%d", t.ID)
		return
	}
	switch t.Op {
	case OConst:
		sb.WriteString(t.C.String())
	case OVar, OBVar:
		sb.WriteString(t.Name)
	case OTrue:
		sb.WriteString("true")
	case OFalse:
		sb.WriteString("false")
	case OLin:
		sb.WriteString("(")
		first := true
		if t.C.Sign() != 0 {
			sb.WriteString(t.C.String())
			first = false
		}
		for i, a := range t.Args {
			if !first {
				sb.WriteString(" + ")
			}
			first = false
			if t.Coef[i].Cmp(big1) != 0 {
				sb.WriteString(t.Coef[i].String())
				sb.WriteString("*")
			}
			a.write(sb, depth+1)
		}
		sb.WriteString(")")
	default:
		names := map[Op]string{OMul: "*", ODiv: "div", OMod: "mod", OIte: "ite", OBitAnd: "&", OBitOr: "|", OBitXor: "^", OEq: "=", OLe: "<=", ONot: "not", OAnd: "and", OOr: "or"}
		sb.WriteString("(" + names[t.Op])
		for _, a := range t.Args {
			sb.WriteString(" ")
			a.write(sb, depth+1)
		}
		sb.WriteString(")")
	}
}

// Eval evaluates t under an assignment of variables (ints) and boolean
// variables; used to validate models and by the concrete interpreter mode.
func Eval(t *Term, env map[string]*big.Int, benv map[string]bool, memo map[int]*big.Int) *big.Int {
	if v, ok := memo[t.ID]; ok {
		return v
	}
	bool2 := func(b bool) *big.Int {
		if b {
			return big1
		}
		return big0
	}
	ev := func(x *Term) *big.Int { return Eval(x, env, benv, memo) }
	var r *big.Int
	switch t.Op {
	case OConst:
		r = t.C
	case OVar:
		v, ok := env[t.Name]
		if !ok {
			// unconstrained by the model: pick a value in range
			switch {
			case t.Lo != nil:
				v = t.Lo
			case t.Hi != nil:
				v = t.Hi
			default:
				v = big0
			}
		}
		r = v
	case OBVar:
		r = bool2(benv[t.Name])
	case OTrue:
		r = big1
	case OFalse:
		r = big0
	case OLin:
		s := new(big.Int).Set(t.C)
		for i, a := range t.Args {
			s.Add(s, new(big.Int).Mul(t.Coef[i], ev(a)))
		}
		r = s
	case OMul:
		r = new(big.Int).Mul(ev(t.Args[0]), ev(t.Args[1]))
	case ODiv:
		d := ev(t.Args[1])
		if d.Sign() <= 0 {
			r = big0
		} else {
			r = floorDiv(ev(t.Args[0]), d)
		}
	case OMod:
		d := ev(t.Args[1])
		if d.Sign() <= 0 {
			r = big0
		} else {
			r = new(big.Int).Mod(ev(t.Args[0]), d)
		}
	case OIte:
		if ev(t.Args[0]).Sign() != 0 {
			r = ev(t.Args[1])
		} else {
			r = ev(t.Args[2])
		}
	case OBitAnd:
		r = new(big.Int).And(ev(t.Args[0]), ev(t.Args[1]))
	case OBitOr:
		r = new(big.Int).Or(ev(t.Args[0]), ev(t.Args[1]))
	case OBitXor:
		r = new(big.Int).Xor(ev(t.Args[0]), ev(t.Args[1]))
	case OEq:
		r = bool2(ev(t.Args[0]).Cmp(ev(t.Args[1])) == 0)
	case OLe:
		r = bool2(ev(t.Args[0]).Cmp(ev(t.Args[1])) <= 0)
	case ONot:
		r = bool2(ev(t.Args[0]).Sign() == 0)
	case OAnd:
		r = big1
		for _, a := range t.Args {
			if ev(a).Sign() == 0 {
				r = big0
				break
			}
		}
	case OOr:
		r = big0
		for _, a := range t.Args {
			if ev(a).Sign() != 0 {
				r = big1
				break
			}
		}
	default:
		panic("eval: op")
	}
	memo[t.ID] = r
	return r
}
