package sym

import (
	"fmt"
	"go/token"
	"go/types"
	"math"
	"math/big"

	"golang.org/x/tools/go/ssa"

	"verif/engine/term"
)

func (p *Path) wrap(t *term.Term, ty types.Type) *term.Term {
	w, signed, ok := intInfo(ty)
	if !ok {
		panic(engineErr{"wrap: not an integer type: " + ty.String()})
	}
	if signed {
		return p.C.WrapS(t, w)
	}
	return p.C.WrapU(t, w)
}

// toUnsigned reinterprets a signed w-bit value as unsigned.
func (p *Path) toUnsigned(t *term.Term, w int) *term.Term { return p.C.WrapU(t, w) }

func (p *Path) binop(in ssa.Instruction, op token.Token, a, b Value, opTy, resTy types.Type) (Value, *Panic) {
	C := p.C
	switch x := a.(type) {
	case *term.Term:
		y, ok := b.(*term.Term)
		if !ok {
			p.unsupported("binop %s on %T,%T", op, a, b)
		}
		if x.Bool {
			switch op {
			case token.EQL:
				return C.Iff(x, y), nil
			case token.NEQ:
				return C.Not(C.Iff(x, y)), nil
			case token.AND, token.LAND:
				return C.And(x, y), nil
			case token.OR, token.LOR:
				return C.Or(x, y), nil
			}
			p.unsupported("bool binop %s", op)
		}
		switch op {
		case token.EQL:
			return C.Eq(x, y), nil
		case token.NEQ:
			return C.Ne(x, y), nil
		case token.LSS:
			return C.Lt(x, y), nil
		case token.LEQ:
			return C.Le(x, y), nil
		case token.GTR:
			return C.Gt(x, y), nil
		case token.GEQ:
			return C.Ge(x, y), nil
		}
		w, signed, _ := intInfo(opTy)
		switch op {
		case token.ADD:
			return p.wrap(C.Add(x, y), opTy), nil
		case token.SUB:
			return p.wrap(C.Sub(x, y), opTy), nil
		case token.MUL:
			return p.wrap(C.Mul(x, y), opTy), nil
		case token.QUO, token.REM:
			if !(y.LoGe(big.NewInt(1)) || y.HiLe(big.NewInt(-1))) {
				if y.IsConst() || p.decide(C.Eq(y, C.Int(0)), p.pos(in)+":div0") {
					return nil, p.rtPanic(in, "integer divide by zero")
				}
			}
			if !signed || (x.NonNeg() && y.NonNeg()) {
				if op == token.QUO {
					return C.Div(x, y), nil
				}
				return C.Mod(x, y), nil
			}
			// signed truncated division
			if !y.IsConst() {
				// make the divisor sign concrete
				if !y.NonNeg() && !y.HiLe(big.NewInt(-1)) {
					if p.decide(C.Lt(y, C.Int(0)), p.pos(in)+":divsign") {
						y = p.refineNeg(y)
					}
				}
			}
			ay := y
			yneg := y.HiLe(big.NewInt(-1))
			if yneg {
				ay = C.Neg(y)
			}
			xneg := C.Lt(x, C.Int(0))
			ax := C.Ite(xneg, C.Neg(x), x)
			q := C.Div(ax, ay)
			r := C.Mod(ax, ay)
			if op == token.QUO {
				sq := C.Ite(xneg, C.Neg(q), q)
				if yneg {
					sq = C.Neg(sq)
				}
				return p.wrap(sq, opTy), nil
			}
			return C.Ite(xneg, C.Neg(r), r), nil
		case token.AND, token.OR, token.XOR, token.AND_NOT:
			ux, uy := x, y
			if signed && !(x.NonNeg() && y.NonNeg()) {
				ux, uy = p.toUnsigned(x, w), p.toUnsigned(y, w)
			}
			var r *term.Term
			switch op {
			case token.AND:
				r = C.BitAnd(ux, uy, w)
			case token.OR:
				r = C.BitOr(ux, uy, w)
			case token.XOR:
				r = C.BitXor(ux, uy, w)
			case token.AND_NOT:
				full := new(big.Int).Sub(term.Pow2(w), big.NewInt(1))
				r = C.BitAnd(ux, C.Sub(C.Const(full), uy), w)
			}
			if signed {
				r = C.WrapS(r, w)
			}
			return r, nil
		case token.SHL, token.SHR:
			var k int64
			if y.IsConst() {
				if !y.C.IsInt64() || y.C.Sign() < 0 {
					if y.C.Sign() < 0 {
						return nil, p.rtPanic(in, "negative shift amount")
					}
					k = 1 << 20
				} else {
					k = y.C.Int64()
				}
			} else {
				k = p.concretize(y, p.pos(in)+":shift")
				if k < 0 {
					return nil, p.rtPanic(in, "negative shift amount")
				}
			}
			if op == token.SHL {
				if k >= int64(w) {
					return C.Int(0), nil
				}
				return p.wrap(C.MulC(x, term.Pow2(int(k))), opTy), nil
			}
			if k >= int64(w) {
				if signed {
					return C.Ite(C.Lt(x, C.Int(0)), C.Int(-1), C.Int(0)), nil
				}
				return C.Int(0), nil
			}
			return C.DivC(x, term.Pow2(int(k))), nil
		}
		p.unsupported("int binop %s", op)
	case FloatV:
		y := b.(FloatV)
		switch op {
		case token.ADD:
			return p.fres(x.F+y.F, resTy), nil
		case token.SUB:
			return p.fres(x.F-y.F, resTy), nil
		case token.MUL:
			return p.fres(x.F*y.F, resTy), nil
		case token.QUO:
			return p.fres(x.F/y.F, resTy), nil
		case token.EQL:
			return C.BoolC(x.F == y.F), nil
		case token.NEQ:
			return C.BoolC(x.F != y.F), nil
		case token.LSS:
			return C.BoolC(x.F < y.F), nil
		case token.LEQ:
			return C.BoolC(x.F <= y.F), nil
		case token.GTR:
			return C.BoolC(x.F > y.F), nil
		case token.GEQ:
			return C.BoolC(x.F >= y.F), nil
		}
	case StringV:
		y := b.(StringV)
		switch op {
		case token.ADD:
			r := make([]*term.Term, 0, len(x.B)+len(y.B))
			r = append(append(r, x.B...), y.B...)
			return StringV{r}, nil
		case token.EQL, token.NEQ:
			var eq *term.Term
			if len(x.B) != len(y.B) {
				eq = C.False
			} else {
				cs := []*term.Term{}
				for i := range x.B {
					cs = append(cs, C.Eq(x.B[i], y.B[i]))
				}
				eq = C.And(cs...)
			}
			if op == token.NEQ {
				eq = C.Not(eq)
			}
			return eq, nil
		}
		p.unsupported("string binop %s", op)
	case Pointer:
		y, ok := b.(Pointer)
		if !ok {
			p.unsupported("pointer compared with %T", b)
		}
		eq := x.Obj == y.Obj && (x.Obj == nil || x.Off == y.Off)
		switch op {
		case token.EQL:
			return C.BoolC(eq), nil
		case token.NEQ:
			return C.BoolC(!eq), nil
		}
	case IfaceV:
		y := b.(IfaceV)
		eq := p.ifaceEq(x, y)
		switch op {
		case token.EQL:
			return eq, nil
		case token.NEQ:
			return C.Not(eq), nil
		}
	case SliceV:
		// only comparison with nil
		y := b.(SliceV)
		eq := x.Obj == nil && y.Obj == nil
		if x.Obj != nil && y.Obj != nil {
			p.unsupported("slice comparison")
		}
		switch op {
		case token.EQL:
			return C.BoolC(eq), nil
		case token.NEQ:
			return C.BoolC(!eq), nil
		}
	case FuncV:
		y := b.(FuncV)
		isNil := func(f FuncV) bool { return f.Fn == nil && f.Builtin == "" }
		eq := isNil(x) && isNil(y)
		switch op {
		case token.EQL:
			return C.BoolC(eq), nil
		case token.NEQ:
			return C.BoolC(!eq), nil
		}
	case MapV:
		y := b.(MapV)
		eq := x.M == nil && y.M == nil
		switch op {
		case token.EQL:
			return C.BoolC(eq), nil
		case token.NEQ:
			return C.BoolC(!eq), nil
		}
	case StructV:
		y := b.(StructV)
		st := opTy.Underlying().(*types.Struct)
		cs := []*term.Term{}
		for i := range x.F {
			e, pn := p.binop(in, token.EQL, x.F[i], y.F[i], st.Field(i).Type(), resTy)
			if pn != nil {
				return nil, pn
			}
			cs = append(cs, e.(*term.Term))
		}
		eq := C.And(cs...)
		if op == token.NEQ {
			eq = C.Not(eq)
		}
		return eq, nil
	}
	p.unsupported("binop %s on %T at %s", op, a, p.pos(in))
	return nil, nil
}

// refineNeg is a hook for interval refinement after a sign decision (the path
// condition already carries the fact; the interval is only an optimisation).
func (p *Path) refineNeg(y *term.Term) *term.Term { return y }

func (p *Path) fres(f float64, ty types.Type) Value {
	if b, ok := ty.Underlying().(*types.Basic); ok && b.Kind() == types.Float32 {
		return FloatV{float64(float32(f))}
	}
	return FloatV{f}
}

func (p *Path) ifaceEq(x, y IfaceV) *term.Term {
	C := p.C
	if x.T == nil || y.T == nil {
		return C.BoolC(x.T == nil && y.T == nil)
	}
	if !types.Identical(x.T, y.T) {
		return C.False
	}
	switch a := x.V.(type) {
	case Pointer:
		b := y.V.(Pointer)
		return C.BoolC(a.Obj == b.Obj && (a.Obj == nil || a.Off == b.Off))
	case *term.Term:
		return C.Eq(a, y.V.(*term.Term))
	case StringV:
		r, _ := p.binop(nil, token.EQL, a, y.V, x.T, types.Typ[types.Bool])
		return r.(*term.Term)
	case StructV:
		r, _ := p.binop(nil, token.EQL, a, y.V, x.T, types.Typ[types.Bool])
		return r.(*term.Term)
	}
	p.unsupported("interface comparison of dynamic type %s", x.T)
	return nil
}

func (p *Path) unop(in ssa.Instruction, op token.Token, a Value, ty types.Type) (Value, *Panic) {
	C := p.C
	switch x := a.(type) {
	case *term.Term:
		switch op {
		case token.NOT:
			return C.Not(x), nil
		case token.SUB:
			return p.wrap(C.Neg(x), ty), nil
		case token.XOR:
			w, signed, _ := intInfo(ty)
			if signed {
				return C.Sub(C.Int(-1), x), nil
			}
			return C.Sub(C.Const(new(big.Int).Sub(term.Pow2(w), big.NewInt(1))), x), nil
		}
	case FloatV:
		if op == token.SUB {
			return FloatV{-x.F}, nil
		}
	}
	p.unsupported("unop %s on %T", op, a)
	return nil, nil
}

func (p *Path) convert(in ssa.Instruction, v Value, from, to types.Type) (Value, *Panic) {
	C := p.C
	switch x := v.(type) {
	case *term.Term:
		if _, _, ok := intInfo(to); ok {
			return p.wrap(x, to), nil
		}
		if isFloat(to) {
			k := x
			var f float64
			if k.IsConst() {
				f, _ = new(big.Float).SetInt(k.C).Float64()
			} else {
				vv := p.concretize(k, p.pos(in)+":int->float")
				_, signed, _ := intInfo(from)
				if signed {
					f = float64(vv)
				} else {
					f = float64(uint64(vv))
				}
			}
			return p.fres(f, to), nil
		}
		if isString(to) {
			// string(rune)
			if x.IsConst() && x.C.IsInt64() && x.C.Int64() < 0x80 && x.C.Sign() >= 0 {
				return StringV{[]*term.Term{x}}, nil
			}
			p.unsupported("string(rune) of non-ASCII/symbolic value")
		}
	case FloatV:
		if isFloat(to) {
			return p.fres(x.F, to), nil
		}
		if w, signed, ok := intInfo(to); ok {
			f := math.Trunc(x.F)
			bf := new(big.Float).SetFloat64(f)
			bi, _ := bf.Int(nil)
			t := C.Const(bi)
			if signed {
				return C.WrapS(t, w), nil
			}
			return C.WrapU(t, w), nil
		}
	case StringV:
		if sl, ok := to.Underlying().(*types.Slice); ok {
			o := p.newObject(sl.Elem(), len(x.B), "[]byte(string)")
			for i, b := range x.B {
				o.Cells[i] = b
			}
			return SliceV{Obj: o, Len: len(x.B), Cap: len(x.B), Elem: sl.Elem(), ESize: 1}, nil
		}
		if isString(to) {
			return x, nil
		}
	case SliceV:
		if isString(to) {
			b := make([]*term.Term, x.Len)
			for i := 0; i < x.Len; i++ {
				b[i] = x.Obj.Cells[x.Off+i].(*term.Term)
			}
			return StringV{b}, nil
		}
		if _, ok := to.Underlying().(*types.Slice); ok {
			return x, nil
		}
	case Pointer:
		return x, nil
	}
	p.unsupported("convert %T from %s to %s at %s", v, from, to, p.pos(in))
	return nil, nil
}

func (p *Path) builtin(name string, args []Value, deferredBy *frame, c *ssa.CallCommon) (Value, *Panic) {
	C := p.C
	switch name {
	case "len":
		switch x := args[0].(type) {
		case SliceV:
			return C.Int(int64(x.Len)), nil
		case StringV:
			return C.Int(int64(len(x.B))), nil
		case MapV:
			if x.M == nil {
				return C.Int(0), nil
			}
			return C.Int(int64(len(x.M.keys))), nil
		case ArrayV:
			return C.Int(int64(len(x.E))), nil
		case Pointer:
			at := c.Args[0].Type().Underlying().(*types.Pointer).Elem().Underlying().(*types.Array)
			return C.Int(at.Len()), nil
		}
	case "cap":
		switch x := args[0].(type) {
		case SliceV:
			return C.Int(int64(x.Cap)), nil
		case Pointer:
			at := c.Args[0].Type().Underlying().(*types.Pointer).Elem().Underlying().(*types.Array)
			return C.Int(at.Len()), nil
		}
	case "copy":
		dst := args[0].(SliceV)
		var n int
		switch src := args[1].(type) {
		case SliceV:
			n = dst.Len
			if src.Len < n {
				n = src.Len
			}
			if n > 0 {
				if p.spec > 0 {
					panic(specAbort{"copy"})
				}
				if p.onStore != nil {
					p.onStore(nil, dst.Obj)
				}
				if p.onLoad != nil {
					p.onLoad(nil, src.Obj)
				}
				tmp := make([]Value, n*dst.ESize)
				copy(tmp, src.Obj.Cells[src.Off:src.Off+n*src.ESize])
				copy(dst.Obj.Cells[dst.Off:], tmp)
			}
		case StringV:
			n = dst.Len
			if len(src.B) < n {
				n = len(src.B)
			}
			if n > 0 {
				if p.spec > 0 {
					panic(specAbort{"copy"})
				}
				if p.onStore != nil {
					p.onStore(nil, dst.Obj)
				}
				for i := 0; i < n; i++ {
					dst.Obj.Cells[dst.Off+i] = src.B[i]
				}
			}
		default:
			p.unsupported("copy from %T", args[1])
		}
		return C.Int(int64(n)), nil
	case "append":
		s := args[0].(SliceV)
		var add []Value
		es := s.ESize
		switch src := args[1].(type) {
		case SliceV:
			if s.ESize == 0 {
				es = src.ESize
			}
			if src.Len > 0 {
				add = append(add, src.Obj.Cells[src.Off:src.Off+src.Len*src.ESize]...)
				if p.onLoad != nil {
					p.onLoad(nil, src.Obj)
				}
			}
		case StringV:
			es = 1
			for _, b := range src.B {
				add = append(add, b)
			}
		default:
			p.unsupported("append of %T", args[1])
		}
		if es == 0 {
			es = 1
		}
		k := len(add) / es
		if k == 0 {
			return s, nil
		}
		if p.spec > 0 {
			panic(specAbort{"append"})
		}
		if s.Len+k <= s.Cap {
			if p.onStore != nil {
				p.onStore(nil, s.Obj)
			}
			copy(s.Obj.Cells[s.Off+s.Len*es:], add)
			s.Len += k
			return s, nil
		}
		ncap := 2 * s.Cap
		if ncap < s.Len+k {
			ncap = s.Len + k
		}
		et := c.Args[0].Type().Underlying().(*types.Slice).Elem()
		o := p.newObject(et, ncap, "append")
		if s.Len > 0 {
			copy(o.Cells, s.Obj.Cells[s.Off:s.Off+s.Len*es])
		}
		copy(o.Cells[s.Len*es:], add)
		return SliceV{Obj: o, Len: s.Len + k, Cap: ncap, Elem: et, ESize: es}, nil
	case "recover":
		if deferredBy != nil {
			// recover() called directly by a deferred function
		}
		fr := p.curDeferredBy
		if fr != nil && fr.panic != nil {
			pn := fr.panic
			fr.panic = nil
			p.lastRecovered = pn
			return pn.V, nil
		}
		return IfaceV{}, nil
	case "print", "println":
		return nil, nil
	case "min", "max":
		a, b := args[0].(*term.Term), args[1].(*term.Term)
		if name == "min" {
			return C.Ite(C.Le(a, b), a, b), nil
		}
		return C.Ite(C.Le(a, b), b, a), nil
	case "delete":
		p.unsupported("delete")
	case "ssa:wrapnilchk":
		return args[0], nil
	}
	p.unsupported("builtin %s on %s", name, fmt.Sprintf("%T", args))
	return nil, nil
}
