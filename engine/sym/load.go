package sym

import (
	"fmt"
	"strconv"
	"go/types"
	"os"
	"path/filepath"
	"sort"
	"strings"
	"sync"
	"time"

	"golang.org/x/tools/go/packages"
	"golang.org/x/tools/go/ssa"
	"golang.org/x/tools/go/ssa/ssautil"
)

type typesType = types.Type

func typesIdentical(a, b types.Type) bool { return types.Identical(a, b) }

const DecimalPath = "github.com/db47h/decimal"

// LoadOptions describes how /repo is loaded.
type LoadOptions struct {
	Repo       string
	HarnessDir string            // directory with decimal/ and context/ harness sources
	Tags       string            // build tags
	Extra      map[string][]byte // additional overlay entries (absolute path -> content)
	Tests      bool
}

type Loaded struct {
	Repo     string
	Prog     *ssa.Program
	Pkgs     map[string]*ssa.Package
	Overlay  map[string]string // virtual path -> real path (for native replay)
	LoadTime time.Duration
}

func Load(opt LoadOptions) (*Loaded, error) {
	t0 := time.Now()
	overlay := map[string][]byte{}
	omap := map[string]string{}
	for _, sub := range []string{"decimal", "context"} {
		dir := filepath.Join(opt.HarnessDir, sub)
		ents, err := os.ReadDir(dir)
		if err != nil {
			continue
		}
		for _, e := range ents {
			if !strings.HasSuffix(e.Name(), ".go") {
				continue
			}
			b, err := os.ReadFile(filepath.Join(dir, e.Name()))
			if err != nil {
				return nil, err
			}
			target := filepath.Join(opt.Repo, "zz_verif_"+e.Name())
			if sub == "context" {
				target = filepath.Join(opt.Repo, "context", "zz_verif_"+e.Name())
			}
			overlay[target] = b
			omap[target] = filepath.Join(dir, e.Name())
		}
	}
	for k, v := range opt.Extra {
		overlay[k] = v
	}
	cfg := &packages.Config{
		Mode:       packages.LoadAllSyntax,
		Dir:        opt.Repo,
		BuildFlags: []string{"-tags=" + opt.Tags},
		Overlay:    overlay,
		Env:        append(os.Environ(), "GOFLAGS=-mod=mod", "GOPROXY=off", "GOSUMDB=off", "GOTOOLCHAIN=local"),
		Tests:      opt.Tests,
	}
	pkgs, err := packages.Load(cfg, ".", "./context")
	if err != nil {
		return nil, err
	}
	var errs []string
	packages.Visit(pkgs, nil, func(p *packages.Package) {
		for _, e := range p.Errors {
			errs = append(errs, e.Error())
		}
	})
	if len(errs) > 0 {
		sort.Strings(errs)
		return nil, fmt.Errorf("load errors:\n%s", strings.Join(errs, "\n"))
	}
	prog, spkgs := ssautil.AllPackages(pkgs, ssa.InstantiateGenerics)
	prog.Build()
	l := &Loaded{Repo: opt.Repo, Prog: prog, Pkgs: map[string]*ssa.Package{}, Overlay: omap}
	for _, sp := range spkgs {
		if sp == nil {
			continue
		}
		switch sp.Pkg.Path() {
		case DecimalPath:
			l.Pkgs["decimal"] = sp
		case DecimalPath + "/context":
			l.Pkgs["context"] = sp
		}
	}
	if l.Pkgs["decimal"] == nil {
		return nil, fmt.Errorf("package %s not loaded", DecimalPath)
	}
	l.LoadTime = time.Since(t0)
	return l, nil
}

func NewExec(l *Loaded) *Exec {
	x := &Exec{Prog: l.Prog, Pkgs: l.Pkgs, MaxSteps: 20_000_000, MaxAlloc: 4096, MaxConcretize: 80,
		Timeout: 60 * time.Second, FeasTimeout: 5 * time.Second, NLFeasTimeout: 1 * time.Second, SampleTries: 40, MaxUnknownFeas: 60, MaxViolations: 6, Contracts: map[string]bool{}, mergeBad: map[ssa.Instruction]bool{}}
	if rt := l.Prog.ImportedPackage("runtime"); rt != nil {
		if m := rt.Members["errorString"]; m != nil {
			x.rtErrType = m.Type()
		}
		if m := rt.Members["TypeAssertionError"]; m != nil {
			x.typeAssertErrType = types.NewPointer(m.Type())
		}
	}
	x.RepoDir = l.Repo
	if v := os.Getenv("VERIF_NLFEAS_MS"); v != "" {
		if n, err := strconv.Atoi(v); err == nil {
			x.NLFeasTimeout = time.Duration(n) * time.Millisecond
		}
	}
	x.registerIntrinsics()
	return x
}

var _ sync.Mutex
