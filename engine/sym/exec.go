package sym

import (
	"time"
	"fmt"
	"go/constant"
	"go/token"
	"go/types"
	"math/big"
	"strings"

	"golang.org/x/tools/go/ssa"

	"verif/engine/term"
)

// control-flow sentinels (Go panics caught at the top of a path)
type abortPath struct{ reason string }
type specAbort struct{ why string }
type engineErr struct{ msg string }

func (p *Path) unsupported(format string, a ...interface{}) {
	if p.spec > 0 {
		panic(specAbort{"unsupported"})
	}
	panic(engineErr{fmt.Sprintf(format, a...)})
}

type deferred struct {
	fn   Value
	args []Value
	call *ssa.CallCommon
}

type frame struct {
	fn         *ssa.Function
	locals     map[ssa.Value]Value
	defers     []deferred
	panic      *Panic
	deferredBy *frame
	parent     *frame
}

func (p *Path) pos(in ssa.Instruction) string {
	if in == nil {
		return "?"
	}
	ps := p.X.Prog.Fset.Position(in.Pos())
	fn := ""
	if in.Parent() != nil {
		fn = in.Parent().Name()
	}
	if !ps.IsValid() {
		return fn
	}
	f := ps.Filename
	if i := strings.LastIndex(f, "/"); i >= 0 {
		f = f[i+1:]
	}
	return fmt.Sprintf("%s:%d(%s)", f, ps.Line, fn)
}

func (p *Path) rtPanic(in ssa.Instruction, msg string) *Panic {
	if p.spec > 0 {
		panic(specAbort{"runtime panic " + msg})
	}
	return &Panic{Runtime: msg, Where: p.pos(in), V: IfaceV{T: p.X.rtErrType, V: p.strConst(msg)}}
}

func (p *Path) strConst(s string) StringV {
	b := make([]*term.Term, len(s))
	for i := 0; i < len(s); i++ {
		b[i] = p.C.Int(int64(s[i]))
	}
	return StringV{b}
}

func (p *Path) zero(t types.Type) Value {
	switch u := t.Underlying().(type) {
	case *types.Basic:
		switch {
		case u.Info()&types.IsBoolean != 0:
			return p.C.False
		case u.Info()&types.IsInteger != 0:
			return p.C.Int(0)
		case u.Info()&types.IsFloat != 0:
			return FloatV{0}
		case u.Info()&types.IsString != 0:
			return StringV{}
		case u.Kind() == types.UnsafePointer:
			return Pointer{}
		case u.Kind() == types.UntypedNil:
			return Pointer{}
		}
	case *types.Pointer:
		return Pointer{T: u.Elem()}
	case *types.Slice:
		return SliceV{Elem: u.Elem(), ESize: layout(u.Elem())}
	case *types.Interface:
		return IfaceV{}
	case *types.Struct:
		f := make([]Value, u.NumFields())
		for i := range f {
			f[i] = p.zero(u.Field(i).Type())
		}
		return StructV{f}
	case *types.Array:
		e := make([]Value, u.Len())
		for i := range e {
			e[i] = p.zero(u.Elem())
		}
		return ArrayV{e}
	case *types.Signature:
		return FuncV{}
	case *types.Map:
		return MapV{}
	case *types.Chan:
		return Pointer{}
	case *types.Tuple:
		tv := make(TupleV, u.Len())
		for i := range tv {
			tv[i] = p.zero(u.At(i).Type())
		}
		return tv
	}
	p.unsupported("zero value of %s", t)
	return nil
}

func (p *Path) newObject(t types.Type, n int, name string) *Object {
	if p.spec > 0 {
		panic(specAbort{"alloc"})
	}
	p.nextObj++
	o := &Object{ID: p.nextObj, Elem: t, Name: name, Gen: p.gen}
	es := layout(t)
	o.Cells = make([]Value, es*n)
	if es == 1 {
		z := p.zero(t)
		for i := range o.Cells {
			o.Cells[i] = z
		}
	} else {
		for i := 0; i < n; i++ {
			p.storeAt(o, i*es, t, p.zero(t))
		}
	}
	return o
}

// storeAt writes v of type t into object cells at offset off (no checks).
func (p *Path) storeAt(o *Object, off int, t types.Type, v Value) {
	switch u := t.Underlying().(type) {
	case *types.Struct:
		sv, ok := v.(StructV)
		if !ok {
			// opaque scalar stored in a single-cell struct slot
			o.Cells[off] = v
			return
		}
		k := off
		for i := 0; i < u.NumFields(); i++ {
			p.storeAt(o, k, u.Field(i).Type(), sv.F[i])
			k += layout(u.Field(i).Type())
		}
	case *types.Array:
		av := v.(ArrayV)
		es := layout(u.Elem())
		for i := 0; i < int(u.Len()); i++ {
			p.storeAt(o, off+i*es, u.Elem(), av.E[i])
		}
	default:
		o.Cells[off] = v
	}
}

func (p *Path) loadAt(o *Object, off int, t types.Type) Value {
	switch u := t.Underlying().(type) {
	case *types.Struct:
		f := make([]Value, u.NumFields())
		k := off
		for i := range f {
			f[i] = p.loadAt(o, k, u.Field(i).Type())
			k += layout(u.Field(i).Type())
		}
		return StructV{f}
	case *types.Array:
		es := layout(u.Elem())
		e := make([]Value, u.Len())
		for i := range e {
			e[i] = p.loadAt(o, off+i*es, u.Elem())
		}
		return ArrayV{e}
	}
	return o.Cells[off]
}

func (p *Path) store(in ssa.Instruction, ptr Pointer, t types.Type, v Value) *Panic {
	if p.spec > 0 {
		panic(specAbort{"store"})
	}
	if ptr.IsNil() {
		return p.rtPanic(in, "nil pointer dereference (store)")
	}
	if ptr.Off < 0 || ptr.Off+layout(t) > len(ptr.Obj.Cells) {
		panic(engineErr{fmt.Sprintf("store out of object bounds at %s", p.pos(in))})
	}
	if p.onStore != nil {
		p.onStore(in, ptr.Obj)
	}
	p.storeAt(ptr.Obj, ptr.Off, t, v)
	return nil
}

func (p *Path) load(in ssa.Instruction, ptr Pointer, t types.Type) (Value, *Panic) {
	if ptr.IsNil() {
		return nil, p.rtPanic(in, "nil pointer dereference")
	}
	if ptr.Off < 0 || ptr.Off+layout(t) > len(ptr.Obj.Cells) {
		panic(engineErr{fmt.Sprintf("load out of object bounds at %s", p.pos(in))})
	}
	if p.onLoad != nil {
		p.onLoad(in, ptr.Obj)
	}
	return p.loadAt(ptr.Obj, ptr.Off, t), nil
}

func (p *Path) constValue(c *ssa.Const) Value {
	t := c.Type()
	if c.Value == nil {
		return p.zero(t)
	}
	switch u := t.Underlying().(type) {
	case *types.Basic:
		switch {
		case u.Info()&types.IsBoolean != 0:
			return p.C.BoolC(constant.BoolVal(c.Value))
		case u.Info()&types.IsInteger != 0:
			v := constant.ToInt(c.Value)
			bi, ok := constant.Val(v).(*big.Int)
			if !ok {
				i64, exact := constant.Int64Val(v)
				if !exact {
					u64, _ := constant.Uint64Val(v)
					return p.C.Uint(u64)
				}
				return p.C.Int(i64)
			}
			return p.C.Const(bi)
		case u.Info()&types.IsFloat != 0:
			f, _ := constant.Float64Val(c.Value)
			return FloatV{f}
		case u.Info()&types.IsString != 0:
			return p.strConst(constant.StringVal(c.Value))
		}
	}
	p.unsupported("constant %s of type %s", c, t)
	return nil
}

func (p *Path) get(fr *frame, v ssa.Value) Value {
	switch x := v.(type) {
	case *ssa.Const:
		return p.constValue(x)
	case *ssa.Global:
		return Pointer{Obj: p.global(x), T: x.Type().(*types.Pointer).Elem()}
	case *ssa.Function:
		return FuncV{Fn: x}
	case *ssa.Builtin:
		return FuncV{Builtin: x.Name()}
	}
	if r, ok := fr.locals[v]; ok {
		return r
	}
	panic(engineErr{fmt.Sprintf("no value for %s (%T) in %s", v.Name(), v, fr.fn)})
}

func (p *Path) global(g *ssa.Global) *Object {
	if o, ok := p.globals[g]; ok {
		return o
	}
	t := g.Type().(*types.Pointer).Elem()
	save := p.spec
	p.spec = 0
	o := p.newObject(t, 1, g.Name())
	p.spec = save
	o.Owner = ownerGlobal
	p.globals[g] = o
	return o
}

const (
	ownerNone   = 0
	ownerGlobal = 1
)

// Call runs fn with args. It returns the result value (TupleV for several
// results) or a panic.
func (p *Path) Call(fn *ssa.Function, args []Value, deferredBy *frame, env []Value) (Value, *Panic) {
	if h := p.X.intrinsic(fn); h != nil {
		return h(p, fn, args)
	}
	if strings.HasPrefix(fn.Name(), "vAsm_") {
		return p.asmCall(fn.Name()[5:], fn, args)
	}
	if p.job != nil && p.job.Cfg["stubs"] == 1 && fn.Pkg != nil {
		// harness-provided contract stub: vStub_<name> replaces <name>
		if st := fn.Pkg.Func("vStub_" + fn.Name()); st != nil && st != fn {
			p.X.noteContract("stub:" + fn.Name())
			return p.Call(st, args, deferredBy, nil)
		}
	}
	if h, name := p.contract(fn); h != nil {
		basic := name == "decDigits64" || name == "magic.div" || name == "div10W_g"
		if p.spec > 0 && name != "decDigits64" {
			// preconditions are obligations: not inside speculation
			panic(specAbort{"contract"})
		}
		if p.initPkg == nil || basic {
			v, pn := h(p, fn, args)
			if v != nil || pn != nil {
				p.X.noteContract(name)
				return v, pn
			}
		}
	}
	if p.initPkg != nil && fn.Name() == "init" && fn.Pkg != p.initPkg && fn.Synthetic != "" {
		return nil, nil // imported package initialisers are run separately
	}
	if len(fn.Blocks) == 0 {
		p.unsupported("call of function without body: %s", fn)
	}
	p.fnSeen[fn]++
	p.depth++
	if p.depth > 200 {
		panic(engineErr{"call depth exceeded in " + fn.String()})
	}
	defer func() { p.depth-- }()
	fr := &frame{fn: fn, locals: make(map[ssa.Value]Value, 32), deferredBy: deferredBy}
	for i, prm := range fn.Params {
		fr.locals[prm] = args[i]
	}
	for i, fv := range fn.FreeVars {
		fr.locals[fv] = env[i]
	}
	return p.run(fr, fn.Blocks[0])
}

func (p *Path) run(fr *frame, block *ssa.BasicBlock) (Value, *Panic) {
	fn := fr.fn
	var prev *ssa.BasicBlock
	for {
		var next *ssa.BasicBlock
		var pn *Panic
		startIdx := 0
		// phis first (parallel assignment)
		if prev != nil {
			idx := -1
			for i, pb := range block.Preds {
				if pb == prev {
					idx = i
				}
			}
			var vals []Value
			for _, in := range block.Instrs {
				ph, ok := in.(*ssa.Phi)
				if !ok {
					break
				}
				vals = append(vals, p.get(fr, ph.Edges[idx]))
				startIdx++
			}
			for i := 0; i < startIdx; i++ {
				fr.locals[block.Instrs[i].(*ssa.Phi)] = vals[i]
			}
		}
	instrs:
		for ii := startIdx; ii < len(block.Instrs); ii++ {
			in := block.Instrs[ii]
			p.steps++
			if p.steps > p.X.MaxSteps {
				panic(engineErr{"step budget exceeded at " + p.pos(in)})
			}
			if p.steps&0x3fff == 0 && !p.deadline.IsZero() && time.Now().After(p.deadline) {
				panic(engineErr{"UNWIND: job wall-clock budget exceeded at " + p.pos(in)})
			}
			switch x := in.(type) {
			case *ssa.DebugRef:
			case *ssa.If:
				c := p.get(fr, x.Cond).(*term.Term)
				if c.IsBoolConst() {
					if c.IsTrue() {
						next = block.Succs[0]
					} else {
						next = block.Succs[1]
					}
					break instrs
				}
				if nb, np, rv, done, ok := p.tryMerge(fr, block, c); ok {
					if done {
						return rv, nil
					}
					block, prev = nb, np
					// phis of nb have been assigned by tryMerge; continue after them
					k := 0
					for _, in2 := range block.Instrs {
						if _, isPhi := in2.(*ssa.Phi); !isPhi {
							break
						}
						k++
					}
					startIdx = k
					ii = k - 1
					continue
				}
				if p.decide(c, p.pos(in)) {
					next = block.Succs[0]
				} else {
					next = block.Succs[1]
				}
				break instrs
			case *ssa.Jump:
				next = block.Succs[0]
				break instrs
			case *ssa.Return:
				var rv Value
				switch len(x.Results) {
				case 0:
				case 1:
					rv = p.get(fr, x.Results[0])
				default:
					tv := make(TupleV, len(x.Results))
					for i, r := range x.Results {
						tv[i] = p.get(fr, r)
					}
					rv = tv
				}
				return rv, nil
			case *ssa.Panic:
				if p.spec > 0 {
					panic(specAbort{"panic"})
				}
				pn = &Panic{V: p.get(fr, x.X), Where: p.pos(in)}
				break instrs
			case *ssa.RunDefers:
				if pn = p.runDefers(fr); pn != nil {
					break instrs
				}
			case *ssa.Defer:
				if p.spec > 0 {
					panic(specAbort{"defer"})
				}
				d := deferred{call: &x.Call}
				d.fn, d.args = p.prepareCall(fr, &x.Call)
				fr.defers = append(fr.defers, d)
			case *ssa.Go, *ssa.Select, *ssa.Send:
				p.unsupported("instruction %T at %s", in, p.pos(in))
			case *ssa.Store:
				ptr := p.get(fr, x.Addr).(Pointer)
				if pn = p.store(in, ptr, x.Val.Type(), p.get(fr, x.Val)); pn != nil {
					break instrs
				}
			case *ssa.MapUpdate:
				p.mapUpdate(fr, x)
			case ssa.Value:
				v, pp := p.eval(fr, x, in)
				if pp != nil {
					pn = pp
					break instrs
				}
				fr.locals[x] = v
			default:
				p.unsupported("instruction %T", in)
			}
		}
		if pn != nil {
			// unwinding
			fr.panic = pn
			if rem := p.runDefers(fr); rem != nil {
				return nil, rem
			}
			// recovered
			if fn.Recover != nil {
				block, prev = fn.Recover, nil
				continue
			}
			return p.zeroResults(fn), nil
		}
		prev, block = block, next
	}
}

func (p *Path) zeroResults(fn *ssa.Function) Value {
	res := fn.Signature.Results()
	switch res.Len() {
	case 0:
		return nil
	case 1:
		return p.zero(res.At(0).Type())
	}
	return p.zero(res)
}

// runDefers runs all pending deferred calls of fr; returns the panic still in
// flight afterwards (nil if none or recovered).
func (p *Path) runDefers(fr *frame) *Panic {
	for len(fr.defers) > 0 {
		d := fr.defers[len(fr.defers)-1]
		fr.defers = fr.defers[:len(fr.defers)-1]
		_, pn := p.invoke(d.fn, d.args, fr, d.call)
		if pn != nil {
			fr.panic = pn
		}
	}
	return fr.panic
}

// prepareCall evaluates callee and arguments of a call.
func (p *Path) prepareCall(fr *frame, c *ssa.CallCommon) (Value, []Value) {
	var args []Value
	if c.IsInvoke() {
		recv := p.get(fr, c.Value)
		for _, a := range c.Args {
			args = append(args, p.get(fr, a))
		}
		return FuncV{Builtin: "invoke:" + c.Method.Name(), Recv: recv}, args
	}
	fv := p.get(fr, c.Value)
	for _, a := range c.Args {
		args = append(args, p.get(fr, a))
	}
	return fv, args
}

func (p *Path) invoke(fv Value, args []Value, deferredBy *frame, c *ssa.CallCommon) (Value, *Panic) {
	f, ok := fv.(FuncV)
	if !ok {
		p.unsupported("call of non-function value %T", fv)
	}
	if strings.HasPrefix(f.Builtin, "invoke:") {
		iv, ok := f.Recv.(IfaceV)
		if !ok || iv.T == nil {
			return nil, p.rtPanic(nil, "nil interface method call "+f.Builtin)
		}
		name := f.Builtin[len("invoke:"):]
		var pkg *types.Package
		if c != nil && c.Method != nil {
			pkg = c.Method.Pkg()
		}
		m := p.X.lookupMethod(iv.T, pkg, name)
		if m == nil {
			p.unsupported("method %s not found on %s", name, iv.T)
		}
		return p.Call(m, append([]Value{iv.V}, args...), deferredBy, nil)
	}
	if f.Builtin != "" {
		return p.builtin(f.Builtin, args, deferredBy, c)
	}
	if f.Fn == nil {
		return nil, p.rtPanic(nil, "call of nil function")
	}
	if f.Recv != nil {
		args = append([]Value{f.Recv}, args...)
	}
	return p.Call(f.Fn, args, deferredBy, f.Env)
}

func (x *Exec) lookupMethod(t types.Type, pkg *types.Package, name string) *ssa.Function {
	ms := x.Prog.MethodSets.MethodSet(t)
	sel := ms.Lookup(pkg, name)
	if sel == nil {
		// exported methods: pkg irrelevant
		for i := 0; i < ms.Len(); i++ {
			if ms.At(i).Obj().Name() == name {
				sel = ms.At(i)
				break
			}
		}
	}
	if sel == nil {
		return nil
	}
	return x.Prog.MethodValue(sel)
}

func (p *Path) eval(fr *frame, v ssa.Value, in ssa.Instruction) (Value, *Panic) {
	switch x := v.(type) {
	case *ssa.Alloc:
		t := x.Type().(*types.Pointer).Elem()
		o := p.newObject(t, 1, x.Comment)
		return Pointer{Obj: o, T: t}, nil
	case *ssa.BinOp:
		return p.binop(in, x.Op, p.get(fr, x.X), p.get(fr, x.Y), x.X.Type(), x.Type())
	case *ssa.UnOp:
		a := p.get(fr, x.X)
		if x.Op == token.MUL {
			return p.load(in, a.(Pointer), x.Type())
		}
		return p.unop(in, x.Op, a, x.Type())
	case *ssa.Call:
		fv, args := p.prepareCall(fr, &x.Call)
		if f, ok := fv.(FuncV); ok && f.Builtin == "recover" {
			p.curDeferredBy = fr.deferredBy
		}
		return p.invoke(fv, args, nil, &x.Call)
	case *ssa.ChangeInterface:
		return p.get(fr, x.X), nil
	case *ssa.ChangeType:
		return p.get(fr, x.X), nil
	case *ssa.Convert:
		return p.convert(in, p.get(fr, x.X), x.X.Type(), x.Type())
	case *ssa.Extract:
		return p.get(fr, x.Tuple).(TupleV)[x.Index], nil
	case *ssa.Field:
		return p.get(fr, x.X).(StructV).F[x.Field], nil
	case *ssa.FieldAddr:
		ptr := p.get(fr, x.X).(Pointer)
		if ptr.IsNil() {
			return nil, p.rtPanic(in, "nil pointer dereference (field)")
		}
		st := x.X.Type().Underlying().(*types.Pointer).Elem().Underlying().(*types.Struct)
		return Pointer{Obj: ptr.Obj, Off: ptr.Off + fieldOffset(st, x.Field), T: st.Field(x.Field).Type()}, nil
	case *ssa.Index:
		idx, pn := p.index(in, p.get(fr, x.Index))
		if pn != nil {
			return nil, pn
		}
		switch a := p.get(fr, x.X).(type) {
		case ArrayV:
			if idx < 0 || idx >= int64(len(a.E)) {
				return nil, p.rtPanic(in, "index out of range")
			}
			return a.E[idx], nil
		case StringV:
			if idx < 0 || idx >= int64(len(a.B)) {
				return nil, p.rtPanic(in, "index out of range")
			}
			return a.B[idx], nil
		}
		p.unsupported("Index on %T", p.get(fr, x.X))
	case *ssa.IndexAddr:
		base := p.get(fr, x.X)
		idx, pn := p.index(in, p.get(fr, x.Index))
		if pn != nil {
			return nil, pn
		}
		switch b := base.(type) {
		case SliceV:
			if idx < 0 || idx >= int64(b.Len) {
				return nil, p.rtPanic(in, fmt.Sprintf("index out of range [%d] with length %d", idx, b.Len))
			}
			return Pointer{Obj: b.Obj, Off: b.Off + int(idx)*b.ESize, T: b.Elem}, nil
		case Pointer: // pointer to array
			if b.IsNil() {
				return nil, p.rtPanic(in, "nil pointer dereference (index)")
			}
			at := x.X.Type().Underlying().(*types.Pointer).Elem().Underlying().(*types.Array)
			if idx < 0 || idx >= at.Len() {
				return nil, p.rtPanic(in, "index out of range")
			}
			return Pointer{Obj: b.Obj, Off: b.Off + int(idx)*layout(at.Elem()), T: at.Elem()}, nil
		}
		p.unsupported("IndexAddr on %T", base)
	case *ssa.Lookup:
		switch m := p.get(fr, x.X).(type) {
		case StringV:
			idx, pn := p.index(in, p.get(fr, x.Index))
			if pn != nil {
				return nil, pn
			}
			if idx < 0 || idx >= int64(len(m.B)) {
				return nil, p.rtPanic(in, "string index out of range")
			}
			return m.B[idx], nil
		case MapV:
			return p.mapLookup(fr, x, m)
		}
		p.unsupported("Lookup on %T", p.get(fr, x.X))
	case *ssa.MakeClosure:
		env := make([]Value, len(x.Bindings))
		for i, b := range x.Bindings {
			env[i] = p.get(fr, b)
		}
		return FuncV{Fn: x.Fn.(*ssa.Function), Env: env}, nil
	case *ssa.MakeInterface:
		return IfaceV{T: x.X.Type(), V: p.get(fr, x.X)}, nil
	case *ssa.MakeMap:
		return MapV{M: &mapObj{}}, nil
	case *ssa.MakeSlice:
		n, pn := p.index(in, p.get(fr, x.Len))
		if pn != nil {
			return nil, pn
		}
		cp, pn := p.index(in, p.get(fr, x.Cap))
		if pn != nil {
			return nil, pn
		}
		if n < 0 || cp < n {
			return nil, p.rtPanic(in, "makeslice: len out of range")
		}
		if cp > int64(p.X.MaxAlloc) {
			panic(engineErr{fmt.Sprintf("allocation of %d elements exceeds bound at %s", cp, p.pos(in))})
		}
		et := x.Type().Underlying().(*types.Slice).Elem()
		o := p.newObject(et, int(cp), "makeslice@"+p.pos(in))
		return SliceV{Obj: o, Len: int(n), Cap: int(cp), Elem: et, ESize: layout(et)}, nil
	case *ssa.Phi:
		panic(engineErr{"phi in the middle of a block"})
	case *ssa.Slice:
		return p.sliceOp(fr, x, in)
	case *ssa.TypeAssert:
		return p.typeAssert(in, x, p.get(fr, x.X))
	case *ssa.Range:
		switch s := p.get(fr, x.X).(type) {
		case StringV:
			return &rangeIter{str: s}, nil
		case MapV:
			return &rangeIter{m: s.M}, nil
		}
		p.unsupported("range over %T", p.get(fr, x.X))
	case *ssa.Next:
		it := p.get(fr, x.Iter).(*rangeIter)
		return p.rangeNext(it, x), nil
	case *ssa.SliceToArrayPointer:
		s := p.get(fr, x.X).(SliceV)
		at := x.Type().(*types.Pointer).Elem()
		return Pointer{Obj: s.Obj, Off: s.Off, T: at}, nil
	}
	p.unsupported("value instruction %T at %s", v, p.pos(in))
	return nil, nil
}

type rangeIter struct {
	str StringV
	m   *mapObj
	i   int
}

func (p *Path) rangeNext(it *rangeIter, x *ssa.Next) Value {
	if x.IsString {
		if it.i >= len(it.str.B) {
			return TupleV{p.C.False, p.C.Int(0), p.C.Int(0)}
		}
		b := it.str.B[it.i]
		// ASCII only: a symbolic byte >= 0x80 would start a multi-byte rune
		if !b.HiLt(big.NewInt(0x80)) {
			p.assume(p.C.Lt(b, p.C.Int(0x80)), "range-over-string: ASCII only")
		}
		k := it.i
		it.i++
		return TupleV{p.C.True, p.C.Int(int64(k)), b}
	}
	if it.i >= len(it.m.keys) {
		return TupleV{p.C.False, nil, nil}
	}
	k := it.i
	it.i++
	return TupleV{p.C.True, it.m.keys[k], it.m.vals[k]}
}

// index turns an index value into a concrete integer (case-splitting when it
// is symbolic).
func (p *Path) index(in ssa.Instruction, v Value) (int64, *Panic) {
	t := v.(*term.Term)
	if t.IsConst() {
		if !t.C.IsInt64() {
			return 0, p.rtPanic(in, "index out of range (huge)")
		}
		return t.C.Int64(), nil
	}
	return p.concretize(t, p.pos(in)), nil
}

func (p *Path) sliceOp(fr *frame, x *ssa.Slice, in ssa.Instruction) (Value, *Panic) {
	base := p.get(fr, x.X)
	geti := func(v ssa.Value, def int64) (int64, *Panic) {
		if v == nil {
			return def, nil
		}
		return p.index(in, p.get(fr, v))
	}
	switch b := base.(type) {
	case StringV:
		lo, pn := geti(x.Low, 0)
		if pn != nil {
			return nil, pn
		}
		hi, pn := geti(x.High, int64(len(b.B)))
		if pn != nil {
			return nil, pn
		}
		if lo < 0 || hi < lo || hi > int64(len(b.B)) {
			return nil, p.rtPanic(in, fmt.Sprintf("slice bounds out of range [%d:%d] with length %d", lo, hi, len(b.B)))
		}
		return StringV{b.B[lo:hi]}, nil
	case SliceV:
		lo, pn := geti(x.Low, 0)
		if pn != nil {
			return nil, pn
		}
		hi, pn := geti(x.High, int64(b.Len))
		if pn != nil {
			return nil, pn
		}
		mx, pn := geti(x.Max, int64(b.Cap))
		if pn != nil {
			return nil, pn
		}
		if lo < 0 || hi < lo || mx < hi || mx > int64(b.Cap) {
			return nil, p.rtPanic(in, fmt.Sprintf("slice bounds out of range [%d:%d:%d] with capacity %d", lo, hi, mx, b.Cap))
		}
		r := b
		r.Off = b.Off + int(lo)*b.ESize
		r.Len = int(hi - lo)
		r.Cap = int(mx - lo)
		if r.Obj == nil && (lo != 0 || hi != 0) {
			return nil, p.rtPanic(in, "slice of nil")
		}
		return r, nil
	case Pointer: // pointer to array
		if b.IsNil() {
			return nil, p.rtPanic(in, "nil pointer dereference (slice)")
		}
		at := x.X.Type().Underlying().(*types.Pointer).Elem().Underlying().(*types.Array)
		lo, pn := geti(x.Low, 0)
		if pn != nil {
			return nil, pn
		}
		hi, pn := geti(x.High, at.Len())
		if pn != nil {
			return nil, pn
		}
		mx, pn := geti(x.Max, at.Len())
		if pn != nil {
			return nil, pn
		}
		if lo < 0 || hi < lo || mx < hi || mx > at.Len() {
			return nil, p.rtPanic(in, "slice bounds out of range")
		}
		es := layout(at.Elem())
		return SliceV{Obj: b.Obj, Off: b.Off + int(lo)*es, Len: int(hi - lo), Cap: int(mx - lo), Elem: at.Elem(), ESize: es}, nil
	}
	p.unsupported("Slice on %T", base)
	return nil, nil
}

func (p *Path) typeAssert(in ssa.Instruction, x *ssa.TypeAssert, v Value) (Value, *Panic) {
	iv, _ := v.(IfaceV)
	ok := false
	var res Value
	if iv.T != nil {
		if types.IsInterface(x.AssertedType) {
			it := x.AssertedType.Underlying().(*types.Interface)
			if types.Implements(iv.T, it) {
				ok = true
				res = iv
			}
		} else if types.Identical(iv.T, x.AssertedType) {
			ok = true
			res = iv.V
		}
	}
	if x.CommaOk {
		if !ok {
			res = p.zero(x.AssertedType)
		}
		return TupleV{res, p.C.BoolC(ok)}, nil
	}
	if !ok {
		pn := p.rtPanic(in, fmt.Sprintf("interface conversion: %v is not %s", iv.T, x.AssertedType))
		pn.V = IfaceV{T: p.X.typeAssertErrType, V: p.strConst("interface conversion")}
		return nil, pn
	}
	return res, nil
}

func (p *Path) mapUpdate(fr *frame, x *ssa.MapUpdate) {
	m := p.get(fr, x.Map).(MapV)
	k := p.get(fr, x.Key)
	v := p.get(fr, x.Value)
	for i, kk := range m.M.keys {
		if p.sameKey(kk, k) {
			m.M.vals[i] = v
			return
		}
	}
	m.M.keys = append(m.M.keys, k)
	m.M.vals = append(m.M.vals, v)
}

func (p *Path) sameKey(a, b Value) bool {
	switch x := a.(type) {
	case *term.Term:
		y := b.(*term.Term)
		if !x.IsConst() || !y.IsConst() {
			p.unsupported("symbolic map key")
		}
		return x.C.Cmp(y.C) == 0
	case StringV:
		y := b.(StringV)
		if len(x.B) != len(y.B) {
			return false
		}
		for i := range x.B {
			if !x.B[i].IsConst() || !y.B[i].IsConst() {
				p.unsupported("symbolic map key")
			}
			if x.B[i].C.Cmp(y.B[i].C) != 0 {
				return false
			}
		}
		return true
	}
	p.unsupported("map key type %T", a)
	return false
}

func (p *Path) mapLookup(fr *frame, x *ssa.Lookup, m MapV) (Value, *Panic) {
	k := p.get(fr, x.Index)
	vt := x.X.Type().Underlying().(*types.Map).Elem()
	if m.M != nil {
		for i, kk := range m.M.keys {
			if p.sameKey(kk, k) {
				if x.CommaOk {
					return TupleV{m.M.vals[i], p.C.True}, nil
				}
				return m.M.vals[i], nil
			}
		}
	}
	if x.CommaOk {
		return TupleV{p.zero(vt), p.C.False}, nil
	}
	return p.zero(vt), nil
}
