package sym

import (
	"fmt"
	"math/big"
	"math/rand"
	"os"
	"runtime/debug"
	"sort"
	"strings"
	"sync"
	"time"

	"golang.org/x/tools/go/ssa"

	"verif/engine/term"
)

type Decision struct {
	B     bool
	V     *big.Int
	IsVal bool
	// IsFact: facts learned by a semantic resolution step (term id -> value); recorded so
	// that replaying a path prefix rebuilds exactly the same terms
	IsFact bool
	Facts  []factRec
}

type factRec struct {
	ID int
	V  bool
}

type workItem struct {
	job     *Job
	trail   []Decision
	env     map[string]*big.Int
	benv    map[string]bool
	retries int // how often this path was restarted after its solver process died
}

// Job is one harness run under one concrete configuration (a grid cell).
type Job struct {
	Pkg     string // "decimal" or "context"
	Harness string
	Cfg     map[string]int64
	// Obl restricts the obligations that are checked (prefix match); empty = all
	Obl []string
	// Contracts overrides the executor's set of callee summaries (comma separated)
	Contracts string
	// Hooks
	Confine bool // C18: ownership checks on stores
}

func (j *Job) Label() string {
	keys := make([]string, 0, len(j.Cfg))
	for k := range j.Cfg {
		keys = append(keys, k)
	}
	sort.Strings(keys)
	var sb strings.Builder
	sb.WriteString(j.Harness)
	if strings.Contains(j.Contracts, "dec.") {
		sb.WriteString(" [nat]")
	}
	for _, k := range keys {
		fmt.Fprintf(&sb, " %s=%d", k, j.Cfg[k])
	}
	return sb.String()
}

type OblResult struct {
	PathDesc string
	Abstract bool   // proved with products abstracted to opaque constants
	Known    string // id of the known-finding predicate the model satisfies
	ID       string
	Status   string // proved | violated | unknown
	Where    string
	Model    map[string]string
	Millis   int64
	Trivial  bool
}

type JobResult struct {
	Job            *Job
	Paths          int
	Infeasible     int // paths ended by an unsatisfiable assumption
	Obls           []OblResult
	Reached        map[string]int
	Errors         []string
	Stats          term.Stats
	Steps          int64
	Decisions      int64
	Merged         int64
	UnknownFeas    int
	Skipped        int // work items dropped after MaxViolations counterexamples
	SolverRestarts int // paths restarted because their solver process died
	WallMS         int64
	Samples        []string
	started        time.Time
	wallHit        bool
	mu             sync.Mutex
	pending        int
}

// Path is the state of one symbolic path.
type Path struct {
	X             *Exec
	deadline      time.Time
	C             *term.Ctx
	S             *term.Session
	job           *Job
	res           *JobResult
	pc            []*term.Term
	env           map[string]*big.Int
	benv          map[string]bool
	memo          map[int]*big.Int
	hasModel      bool
	trail         []Decision
	ti            int
	fork          func(w workItem)
	globals       map[*ssa.Global]*Object
	nextObj       int
	spec          int
	steps         int
	depth         int
	gen           int
	curDeferredBy *frame
	lastRecovered *Panic
	onStore       func(in ssa.Instruction, o *Object)
	onLoad        func(in ssa.Instruction, o *Object)
	inputs        map[string]*term.Term // declared nondet inputs (name -> var)
	pool          []Pointer             // sync.Pool model
	decisions     int64
	merged        int64
	unknownFeas   int
	confine       *confineState
	cuts          int
	rng           *rand.Rand
	nonlinear     bool
	SA            *term.Session
	absActive     bool
	ghost         map[string]Value
	initPkg       *ssa.Package
	contracts     map[string]bool
	known         map[string]*term.Term // known-finding predicates registered on this path
	fnSeen        map[*ssa.Function]int
}

func (p *Path) evalT(t *term.Term) *big.Int {
	return term.Eval(t, p.env, p.benv, p.memo)
}

func (p *Path) setModel(env map[string]*big.Int, benv map[string]bool) {
	p.env, p.benv = env, benv
	if p.env == nil {
		p.env = map[string]*big.Int{}
	}
	if p.benv == nil {
		p.benv = map[string]bool{}
	}
	p.memo = map[int]*big.Int{}
	p.hasModel = true
}

func (p *Path) dropModel() {
	p.hasModel = false
	p.memo = map[int]*big.Int{}
}

// feasTimeout bounds feasibility queries: an "unknown" keeps the path, which is
// sound, so a short limit only costs precision.
func (p *Path) feasTimeout() time.Duration {
	t := p.X.FeasTimeout
	if t == 0 || t > p.X.Timeout {
		t = p.X.Timeout
	}
	return t
}

// sample looks for an assignment of the inputs satisfying the path condition
// and extra by cheap random/extremal search with exact evaluation. It is only
// a witness finder: failing to find one means nothing.
func (p *Path) sample(extra ...*term.Term) (map[string]*big.Int, bool) {
	if len(p.inputs) == 0 {
		return nil, false
	}
	names := make([]string, 0, len(p.inputs))
	for n := range p.inputs {
		names = append(names, n)
	}
	sort.Strings(names)
	if p.rng == nil {
		p.rng = rand.New(rand.NewSource(int64(len(p.trail))*7919 + int64(p.X.Seed) + 1))
	}
	tries := p.X.SampleTries
	for it := 0; it < tries; it++ {
		env := map[string]*big.Int{}
		for _, n := range names {
			v := p.inputs[n]
			if v.Op != term.OVar {
				continue
			}
			var val *big.Int
			mode := p.rng.Intn(8)
			if it > 0 && p.hasModel && p.rng.Intn(3) != 0 {
				if old, ok := p.env[n]; ok {
					val = old
				}
			}
			if val == nil {
				span := new(big.Int).Sub(v.Hi, v.Lo)
				span.Add(span, big.NewInt(1))
				switch mode {
				case 0:
					val = v.Lo
				case 1:
					val = v.Hi
				case 2:
					// structured: d * 10^k
					k := p.rng.Intn(20)
					val = new(big.Int).Mul(big.NewInt(int64(1+p.rng.Intn(9))), term.Pow10(k))
					val.Sub(val, big.NewInt(int64(p.rng.Intn(2))))
				default:
					val = new(big.Int).Rand(p.rng, span)
					val.Add(val, v.Lo)
				}
				if val.Cmp(v.Lo) < 0 || val.Cmp(v.Hi) > 0 {
					val = new(big.Int).Rand(p.rng, span)
					val.Add(val, v.Lo)
				}
			}
			env[n] = val
		}
		memo := map[int]*big.Int{}
		ok := true
		for _, e := range extra {
			if term.Eval(e, env, nil, memo).Sign() == 0 {
				ok = false
				break
			}
		}
		if ok {
			for _, q := range p.pc {
				if term.Eval(q, env, nil, memo).Sign() == 0 {
					ok = false
					break
				}
			}
		}
		if ok {
			return env, true
		}
	}
	return nil, false
}

// feasible decides whether PC and extra can hold together: a witness from the
// sampler, else the solver under the feasibility timeout.
func (p *Path) feasible(extra ...*term.Term) (term.Result, map[string]*big.Int, map[string]bool) {
	if !p.deadline.IsZero() && time.Now().After(p.deadline) {
		panic(engineErr{"UNWIND: job wall-clock budget exceeded (feasibility query)"})
	}
	if p.nonlinear {
		if env, ok := p.sample(extra...); ok {
			return term.Sat, env, map[string]bool{}
		}
		// linear over-approximation (products as opaque bounded constants):
		// unsat is sound; a model is accepted only if it satisfies the exact terms
		if p.SA != nil {
			if !p.absActive {
				p.SA.Reset()
				for _, q := range p.pc {
					p.SA.Assert(q)
				}
				p.absActive = true
			}
			r, env, benv := p.SA.CheckT(p.feasTimeout(), false, true, extra...)
			if p.SA.Dead() {
				p.SA.Reset()
				p.absActive = false
				return term.Unknown, nil, nil
			}
			if r == term.Unsat {
				return term.Unsat, nil, nil
			}
			if r == term.Sat {
				memo := map[int]*big.Int{}
				ok := true
				for _, e := range extra {
					if term.Eval(e, env, benv, memo).Sign() == 0 {
						ok = false
					}
				}
				for _, q := range p.pc {
					if !ok {
						break
					}
					if term.Eval(q, env, benv, memo).Sign() == 0 {
						ok = false
					}
				}
				if ok {
					return term.Sat, env, benv
				}
			}
			// exact encoding with a short limit: it often refutes quickly
			p.S.OneStrategy = true
			r2, e2, b2 := p.S.CheckT(p.X.NLFeasTimeout, true, true, extra...)
			p.S.OneStrategy = false
			if p.S.Dead() {
				panic(engineErr{"solver process died (timeout watchdog or crash)"})
			}
			return r2, e2, b2
		}
	}
	r, e, b := p.S.CheckT(p.feasTimeout(), false, true, extra...)
	if p.S.Dead() {
		panic(engineErr{"solver process died (timeout watchdog or crash)"})
	}
	if r == term.Unknown && !p.nonlinear {
		if env, ok := p.sample(extra...); ok {
			return term.Sat, env, map[string]bool{}
		}
	}
	return r, e, b
}

func (p *Path) check(want bool, extra ...*term.Term) (term.Result, map[string]*big.Int, map[string]bool) {
	r, e, b := p.S.Check(want, extra...)
	if p.S.Dead() {
		panic(engineErr{"solver process died (timeout watchdog or crash)"})
	}
	return r, e, b
}

func (p *Path) addPC(c *term.Term) {
	if c.IsTrue() {
		return
	}
	p.pc = append(p.pc, c)
	p.C.Learn(c)
	p.S.Assert(c)
	if p.absActive {
		p.SA.Assert(c)
	}
}

// assume constrains the path; an infeasible assumption ends the path.
func (p *Path) assume(c *term.Term, why string) {
	if p.spec > 0 {
		panic(specAbort{"assume"})
	}
	if c.IsTrue() {
		return
	}
	if c.IsFalse() {
		panic(abortPath{"assumption false: " + why})
	}
	if p.hasModel && p.evalT(c).Sign() != 0 {
		p.addPC(c)
		return
	}
	r, env, benv := p.feasible(c)
	switch r {
	case term.Unsat:
		panic(abortPath{"assumption infeasible: " + why})
	case term.Sat:
		p.setModel(env, benv)
	default:
		p.unknownFeas++
		p.dropModel()
	}
	p.addPC(c)
}

// decide forks on a symbolic condition.
func (p *Path) decide(c *term.Term, where string) bool {
	if c.IsBoolConst() {
		return c.IsTrue()
	}
	if p.spec > 0 {
		panic(specAbort{"decide"})
	}
	p.decisions++
	if p.ti < len(p.trail) {
		d := p.trail[p.ti]
		p.ti++
		if d.IsVal || d.IsFact {
			panic(engineErr{"trail mismatch (bool expected) at " + where})
		}
		if d.B {
			p.addPC(c)
		} else {
			p.addPC(p.C.Not(c))
		}
		return d.B
	}
	nc := p.C.Not(c)
	var canT, canF bool
	var mT, mF *workItem // models for each side
	cur := -1            // side satisfied by the current model
	if p.hasModel {
		if p.evalT(c).Sign() != 0 {
			canT, cur = true, 1
		} else {
			canF, cur = true, 0
		}
	}
	if cur != 1 {
		r, env, benv := p.feasible(c)
		switch r {
		case term.Sat:
			canT = true
			mT = &workItem{env: env, benv: benv}
		case term.Unknown:
			canT = true
			p.unknownFeas++
		}
	}
	if cur != 0 {
		if cur == -1 && !canT {
			canF = true // PC is satisfiable, so the other side must be
		} else {
			r, env, benv := p.feasible(nc)
			switch r {
			case term.Sat:
				canF = true
				mF = &workItem{env: env, benv: benv}
			case term.Unknown:
				canF = true
				p.unknownFeas++
			}
		}
	}
	if !canT && !canF {
		panic(abortPath{"both branches infeasible at " + where})
	}
	if p.unknownFeas > p.X.MaxUnknownFeas {
		panic(engineErr{fmt.Sprintf("UNWIND: more than %d branch decisions of unknown feasibility on one path (last at %s)", p.X.MaxUnknownFeas, where)})
	}
	take := canT
	if canT && canF {
		// fork: alternative explores the false side
		alt := workItem{job: p.job, trail: append(append([]Decision{}, p.trail[:p.ti]...), Decision{B: false})}
		if cur == 0 {
			alt.env, alt.benv = copyEnv(p.env), copyBenv(p.benv)
		} else if mF != nil {
			alt.env, alt.benv = mF.env, mF.benv
		}
		p.fork(alt)
	}
	p.trail = append(p.trail[:p.ti], Decision{B: take})
	p.ti++
	if take {
		if cur != 1 {
			if mT != nil {
				p.setModel(mT.env, mT.benv)
			} else {
				p.dropModel()
			}
		}
		p.addPC(c)
	} else {
		if cur != 0 {
			if mF != nil {
				p.setModel(mF.env, mF.benv)
			} else {
				p.dropModel()
			}
		}
		p.addPC(nc)
	}
	return take
}

func copyEnv(m map[string]*big.Int) map[string]*big.Int {
	r := make(map[string]*big.Int, len(m))
	for k, v := range m {
		r[k] = v
	}
	return r
}
func copyBenv(m map[string]bool) map[string]bool {
	r := make(map[string]bool, len(m))
	for k, v := range m {
		r[k] = v
	}
	return r
}

// concretize case-splits t over its feasible values.
func (p *Path) concretize(t *term.Term, where string) int64 {
	v := p.concretizeBig(t, where)
	if !v.IsInt64() {
		if v.IsUint64() {
			return int64(v.Uint64())
		}
		panic(engineErr{"concretized value out of range at " + where})
	}
	return v.Int64()
}

func (p *Path) concretizeBig(t *term.Term, where string) *big.Int {
	if t.IsConst() {
		return t.C
	}
	if p.spec > 0 {
		panic(specAbort{"concretize"})
	}
	p.decisions++
	if p.ti < len(p.trail) {
		d := p.trail[p.ti]
		p.ti++
		if !d.IsVal || d.IsFact {
			panic(engineErr{"trail mismatch (value expected) at " + where})
		}
		p.addPC(p.C.Eq(t, p.C.Const(d.V)))
		return d.V
	}
	type cand struct {
		v       *big.Int
		env     map[string]*big.Int
		benv    map[string]bool
		noModel bool
	}
	var cands []cand
	var excl []*term.Term
	if leaves, ok := iteLeaves(t, p.X.MaxConcretize); ok && len(leaves) > 2 {
		// an ite tree with constant leaves: test each leaf value separately
		sort.Slice(leaves, func(i, j int) bool { return leaves[i].Cmp(leaves[j]) < 0 })
		var cur *big.Int
		if p.hasModel {
			cur = p.evalT(t)
			cands = append(cands, cand{v: cur})
		}
		for _, v := range leaves {
			if cur != nil && v.Cmp(cur) == 0 {
				continue
			}
			r, env, benv := p.feasible(p.C.Eq(t, p.C.Const(v)))
			switch r {
			case term.Sat:
				cands = append(cands, cand{v: v, env: env, benv: benv})
			case term.Unknown:
				p.unknownFeas++
				cands = append(cands, cand{v: v, noModel: true})
			}
		}
		goto chosen
	}
	if p.hasModel {
		v := p.evalT(t)
		cands = append(cands, cand{v: v})
		excl = append(excl, p.C.Ne(t, p.C.Const(v)))
	}
	for {
		if len(cands) > p.X.MaxConcretize {
			panic(engineErr{fmt.Sprintf("UNWIND: more than %d feasible values for %s at %s", p.X.MaxConcretize, t, where)})
		}
		r, env, benv := p.feasible(excl...)
		if r == term.Unsat {
			break
		}
		if r == term.Unknown {
			// fall back to enumerating candidate values: every value not refuted stays
			var vals []*big.Int
			if leaves, ok := iteLeaves(t, p.X.MaxConcretize); ok {
				vals = leaves
			} else if t.Lo != nil && t.Hi != nil && new(big.Int).Sub(t.Hi, t.Lo).Cmp(big.NewInt(int64(p.X.MaxConcretize))) <= 0 {
				for v := new(big.Int).Set(t.Lo); v.Cmp(t.Hi) <= 0; v = new(big.Int).Add(v, big.NewInt(1)) {
					vals = append(vals, v)
				}
			} else {
				panic(engineErr{"UNWIND: concretize: solver unknown and the value range is not small at " + where + " for " + t.String()})
			}
			have := map[string]bool{}
			for _, cd := range cands {
				have[cd.v.String()] = true
			}
			for _, v := range vals {
				if have[v.String()] {
					continue
				}
				have[v.String()] = true
				r2, env2, benv2 := p.feasible(p.C.Eq(t, p.C.Const(v)))
				switch r2 {
				case term.Sat:
					cands = append(cands, cand{v: v, env: env2, benv: benv2})
				case term.Unknown:
					p.unknownFeas++
					cands = append(cands, cand{v: v, noModel: true})
				}
			}
			break
		}
		memo := map[int]*big.Int{}
		v := term.Eval(t, env, benv, memo)
		cands = append(cands, cand{v: v, env: env, benv: benv})
		excl = append(excl, p.C.Ne(t, p.C.Const(v)))
	}
chosen:
	if len(cands) == 0 {
		panic(abortPath{"no feasible value at " + where})
	}
	for _, cd := range cands[1:] {
		alt := workItem{job: p.job, trail: append(append([]Decision{}, p.trail[:p.ti]...), Decision{IsVal: true, V: cd.v}), env: cd.env, benv: cd.benv}
		p.fork(alt)
	}
	c0 := cands[0]
	p.trail = append(p.trail[:p.ti], Decision{IsVal: true, V: c0.v})
	p.ti++
	if c0.env != nil {
		p.setModel(c0.env, c0.benv)
	} else if c0.noModel {
		p.dropModel()
	}
	p.addPC(p.C.Eq(t, p.C.Const(c0.v)))
	return c0.v
}

func (p *Path) noteErr(s string) {
	p.res.mu.Lock()
	if len(p.res.Errors) < 50 {
		p.res.Errors = append(p.res.Errors, s)
	}
	p.res.mu.Unlock()
}

func (p *Path) oblActive(id string) bool {
	if len(p.job.Obl) == 0 {
		return true
	}
	for _, pre := range p.job.Obl {
		if strings.HasPrefix(id, pre) {
			return true
		}
	}
	return false
}

func (p *Path) ensureAbs() {
	if !p.absActive {
		p.SA.Reset()
		for _, q := range p.pc {
			p.SA.Assert(q)
		}
		p.absActive = true
	}
}

// refute decides PC and extra: the over-approximation with opaque products
// first (unsat there is unsat exactly), then the exact encoding.
func (p *Path) refute(extra ...*term.Term) (term.Result, map[string]*big.Int, map[string]bool, bool) {
	if p.nonlinear && p.SA != nil && !p.X.NoAbstract {
		p.ensureAbs()
		ra, _, _ := p.SA.CheckT(p.oblTimeout(), true, false, extra...)
		if p.SA.Dead() {
			p.SA.Reset()
			p.absActive = false
		} else if ra == term.Unsat {
			return term.Unsat, nil, nil, true
		}
	}
	r, env, benv := p.S.CheckT(p.oblTimeout(), true, true, extra...)
	if p.S.Dead() {
		panic(engineErr{"solver process died (timeout watchdog or crash)"})
	}
	if r == term.Unknown && p.nonlinear {
		// a violation may still be found by exact evaluation of sampled inputs
		if e2, ok := p.sample(extra...); ok {
			return term.Sat, e2, map[string]bool{}, false
		}
	}
	return r, env, benv, false
}

// assert is a proof obligation: PC => c.
func (p *Path) assert(id string, c *term.Term, where string) {
	if p.spec > 0 {
		panic(specAbort{"assert"})
	}
	if !p.oblActive(id) {
		return
	}
	ob := OblResult{ID: id, Where: where}
	t0 := time.Now()
	if c.IsTrue() {
		ob.Status, ob.Trivial = "proved", true
	} else if !p.deadline.IsZero() && t0.After(p.deadline) {
		ob.Status = "unknown"
		ob.Where += " (not attempted: job wall-clock budget exceeded)"
	} else {
		r, env, benv, abs := p.refute(p.C.Not(c))
		ob.Abstract = abs
		switch r {
		case term.Unsat:
			ob.Status = "proved"
		case term.Sat:
			ob.Status = "violated"
			// validate the model against the path condition
			memo := map[int]*big.Int{}
			okModel := true
			for _, q := range p.pc {
				if term.Eval(q, env, benv, memo).Sign() == 0 {
					okModel = false
				}
			}
			if term.Eval(c, env, benv, memo).Sign() != 0 {
				okModel = false
			}
			ob.Model = map[string]string{}
			for name, tv := range p.inputs {
				ob.Model[name] = term.Eval(tv, env, benv, memo).String()
			}
			if !okModel {
				ob.Status = "unknown"
				ob.Where += " (solver model failed validation)"
			} else if len(p.known) > 0 {
				// is this the listed finding? then also look for a violation outside it
				var excl []*term.Term
				for kid, kt := range p.known {
					if term.Eval(kt, env, benv, memo).Sign() != 0 {
						ob.Known = kid
					}
					excl = append(excl, p.C.Not(kt))
				}
				if ob.Known != "" {
					excl = append(excl, p.C.Not(c))
					r2, env2, benv2, _ := p.refute(excl...)
					if r2 == term.Sat {
						memo2 := map[int]*big.Int{}
						ob2 := OblResult{ID: id, Where: where, Status: "violated", Model: map[string]string{}}
						for name, tv := range p.inputs {
							ob2.Model[name] = term.Eval(tv, env2, benv2, memo2).String()
						}
						p.res.mu.Lock()
						p.res.Obls = append(p.res.Obls, ob2)
						p.res.mu.Unlock()
					} else if r2 == term.Unknown {
						p.noteErr("INCONCLUSIVE: obligation " + id + " outside the known finding: solver unknown")
					}
				}
			}
		default:
			ob.Status = "unknown"
			ob.PathDesc = p.describeTail()
			if len(p.known) > 0 {
				// undecided inside a known finding's region? then decide the rest of the path
				excl := []*term.Term{p.C.Not(c)}
				for _, kt := range p.known {
					excl = append(excl, p.C.Not(kt))
				}
				if r2, _, _, _ := p.refute(excl...); r2 == term.Unsat {
					ob.Status = "proved"
					ob.Where += " (holds outside the registered known-finding predicate; undecided inside it)"
				}
			}
		}
	}
	ob.Millis = time.Since(t0).Milliseconds()
	p.res.mu.Lock()
	p.res.Obls = append(p.res.Obls, ob)
	p.res.mu.Unlock()
	if ob.Status != "proved" {
		// continue the path under the asserted fact
		p.assume(c, "after failed assert "+id)
	} else {
		p.addPC(c)
	}
}

// ------------------------------------------------------------------ driver

type Exec struct {
	Prog              *ssa.Program
	Pkgs              map[string]*ssa.Package
	MaxSteps          int
	MaxAlloc          int
	MaxConcretize     int
	Timeout           time.Duration
	intr              map[string]intrinsicFn
	rtErrType         typesType
	typeAssertErrType typesType
	initTemplate      bool
	Verbose           bool
	Contracts         map[string]bool // summaries enabled
	initOnce          sync.Once
	MaxPaths          int
	FeasTimeout       time.Duration
	NLFeasTimeout     time.Duration
	MaxUnknownFeas    int
	MaxViolations     int
	JobWall           time.Duration // wall-clock budget of one job (0 = none); exceeding it is reported as UNWIND
	CheckDeadline     time.Time     // wall-clock end of the whole check (zero = none): no path starts or continues after it
	RepoDir           string
	asmOnce           sync.Once
	asmProg           *asmProgram
	asmErr            error
	NoAbstract        bool
	SampleTries       int
	NoMerge           bool
	Seed              int
	seenMu            sync.Mutex
	seenFn            map[*ssa.Function]int
	usedContracts     map[string]int
	mergeMu           sync.Mutex
	mergeBad          map[ssa.Instruction]bool
}

// RunJobs explores all jobs with nworkers parallel workers.
func (x *Exec) RunJobs(jobs []*Job, nworkers int) []*JobResult {
	results := make([]*JobResult, len(jobs))
	var mu sync.Mutex
	cond := sync.NewCond(&mu)
	var queue []workItem
	outstanding := 0
	resOf := map[*Job]*JobResult{}
	start := map[*Job]time.Time{}
	for i, j := range jobs {
		results[i] = &JobResult{Job: j, Reached: map[string]int{}}
		resOf[j] = results[i]
		queue = append(queue, workItem{job: j})
		outstanding++
	}
	var wg sync.WaitGroup
	for w := 0; w < nworkers; w++ {
		wg.Add(1)
		go func() {
			defer wg.Done()
			var st term.Stats
			sess, err := term.NewSession(x.Timeout, &st)
			if err != nil {
				fmt.Fprintln(os.Stderr, "cannot start solver:", err)
				os.Exit(2)
			}
			defer sess.Close()
			sess.Seed = x.Seed
			sessA, err := term.NewSession(x.Timeout, &term.Stats{})
			if err != nil {
				fmt.Fprintln(os.Stderr, "cannot start solver:", err)
				os.Exit(2)
			}
			sessA.AbstractMul = true
			defer sessA.Close()
			for {
				mu.Lock()
				for len(queue) == 0 && outstanding > 0 {
					cond.Wait()
				}
				if len(queue) == 0 {
					mu.Unlock()
					return
				}
				// LIFO within the queue keeps memory small (DFS)
				it := queue[len(queue)-1]
				queue = queue[:len(queue)-1]
				if _, ok := start[it.job]; !ok {
					start[it.job] = time.Now()
				}
				mu.Unlock()
				res := resOf[it.job]
				st = term.Stats{}
				fork := func(w workItem) {
					mu.Lock()
					queue = append(queue, w)
					outstanding++
					cond.Signal()
					mu.Unlock()
				}
				x.runPath(it, sess, sessA, res, fork)
				res.mu.Lock()
				res.Stats.Queries += st.Queries
				res.Stats.Sat += st.Sat
				res.Stats.Unsat += st.Unsat
				res.Stats.Unknown += st.Unknown
				res.Stats.SolverNS += st.SolverNS
				res.mu.Unlock()
				mu.Lock()
				outstanding--
				res.WallMS = time.Since(start[it.job]).Milliseconds()
				if outstanding == 0 {
					cond.Broadcast()
				}
				mu.Unlock()
			}
		}()
	}
	wg.Wait()
	return results
}

func (x *Exec) runPath(it workItem, sess, sessA *term.Session, res *JobResult, fork func(workItem)) {
	sess.Reset()
	p := &Path{X: x, C: term.NewCtx(), S: sess, SA: sessA, job: it.job, res: res, trail: it.trail, fork: fork,
		globals: map[*ssa.Global]*Object{}, inputs: map[string]*term.Term{}, ghost: map[string]Value{},
		known: map[string]*term.Term{}, fnSeen: map[*ssa.Function]int{}}
	res.mu.Lock()
	over := x.MaxPaths > 0 && res.Paths >= x.MaxPaths
	// a job that has already produced enough counterexamples is not explored further
	nviol := 0
	for _, o := range res.Obls {
		if o.Status == "violated" && o.Known == "" {
			nviol++
		}
	}
	stop := x.MaxViolations > 0 && nviol >= x.MaxViolations && res.Paths > 0
	if res.started.IsZero() {
		res.started = time.Now()
	}
	p.deadline = time.Time{}
	if x.JobWall > 0 || !x.CheckDeadline.IsZero() {
		if x.JobWall > 0 {
			p.deadline = res.started.Add(x.JobWall)
		}
		if !x.CheckDeadline.IsZero() && (p.deadline.IsZero() || x.CheckDeadline.Before(p.deadline)) {
			p.deadline = x.CheckDeadline
		}
		if time.Now().After(p.deadline) {
			if !res.wallHit {
				res.wallHit = true
				res.Errors = append(res.Errors, fmt.Sprintf("UNWIND: job exceeded its wall-clock budget (%v per job, or the budget of the whole check); remaining work items dropped", x.JobWall))
			}
			res.Skipped++
			res.mu.Unlock()
			return
		}
	}
	if stop {
		res.Skipped++
	}
	res.mu.Unlock()
	if stop {
		return
	}
	if over {
		p.noteErr(fmt.Sprintf("UNWIND: more than %d paths", x.MaxPaths))
		return
	}
	if it.env != nil {
		p.setModel(it.env, it.benv)
	} else if len(it.trail) == 0 {
		p.setModel(nil, nil) // empty PC: any assignment is a model
	}
	if it.job.Confine {
		p.enableConfine()
	}
	p.contracts = x.Contracts
	if it.job.Contracts != "" {
		p.contracts = map[string]bool{}
		for _, c := range strings.Split(it.job.Contracts, ",") {
			p.contracts[c] = true
		}
	}
	completed := false
	func() {
		defer func() {
			if r := recover(); r != nil {
				switch e := r.(type) {
				case abortPath:
					res.mu.Lock()
					res.Infeasible++
					res.mu.Unlock()
				case engineErr:
					if strings.HasPrefix(e.msg, "solver process died") && it.retries < 2 {
						// z3 crashed (a segfault of z3 5.1.0 was observed once under load) or was killed by the
						// watchdog: the path is deterministic in its trail, so it is restarted from the decisions
						// taken so far (already forked alternatives are not forked again) on fresh solver processes
						sess.Reset()
						if sessA != nil && sessA.Dead() {
							sessA.Reset()
						}
						tr := make([]Decision, len(p.trail))
						copy(tr, p.trail)
						res.mu.Lock()
						res.SolverRestarts++
						res.mu.Unlock()
						fork(workItem{job: it.job, trail: tr, retries: it.retries + 1})
						break
					}
					p.noteErr("ENGINE: " + e.msg)
				case specAbort:
					p.noteErr("ENGINE: stray speculation abort: " + e.why)
				default:
					p.noteErr(fmt.Sprintf("ENGINE: internal panic: %v\n%s", r, debug.Stack()))
				}
			}
		}()
		p.initGlobals()
		pkg := x.Pkgs[it.job.Pkg]
		fn := pkg.Func(it.job.Harness)
		if fn == nil {
			panic(engineErr{"harness not found: " + it.job.Harness})
		}
		_, pn := p.Call(fn, nil, nil, nil)
		if pn != nil {
			// uncaught panic at harness level: an obligation of its own
			p.failNow("nopanic.uncaught", pn.String())
		}
		completed = true
	}()
	res.mu.Lock()
	if completed {
		res.Paths++
		if len(res.Samples) < 3 {
			res.Samples = append(res.Samples, p.describe())
		}
	}
	x.seenMu.Lock()
	if x.seenFn == nil {
		x.seenFn = map[*ssa.Function]int{}
	}
	for f, n := range p.fnSeen {
		x.seenFn[f] += n
	}
	x.seenMu.Unlock()
	res.Steps += int64(p.steps)
	res.Decisions += p.decisions
	res.Merged += p.merged
	res.UnknownFeas += p.unknownFeas
	res.mu.Unlock()
}

// oblTimeout is the per-query limit of a proof obligation: the configured limit, shortened when the
// job's or the check's wall budget is about to end (so that a check on a tree where everything
// diverges still ends on time; a query cut short this way is "unknown", never "proved").
func (p *Path) oblTimeout() time.Duration {
	lim := p.X.Timeout
	if !p.deadline.IsZero() {
		rem := time.Until(p.deadline) + 15*time.Second
		if rem < 10*time.Second {
			rem = 10 * time.Second
		}
		if rem < lim {
			lim = rem
		}
	}
	return lim
}

// failNow records a violated obligation using the current path's model.
func (p *Path) failNow(id, msg string) {
	if !p.oblActive(id) {
		return
	}
	ob := OblResult{ID: id, Where: msg}
	r, env, benv := p.check(true)
	switch r {
	case term.Sat:
		ob.Status = "violated"
		memo := map[int]*big.Int{}
		ob.Model = map[string]string{}
		for name, tv := range p.inputs {
			ob.Model[name] = term.Eval(tv, env, benv, memo).String()
		}
	case term.Unsat:
		return // path infeasible after all
	default:
		ob.Status = "unknown"
	}
	p.res.mu.Lock()
	p.res.Obls = append(p.res.Obls, ob)
	p.res.mu.Unlock()
}

func (p *Path) describeTail() string {
	var sb strings.Builder
	n := len(p.pc)
	for i := n - 6; i < n; i++ {
		if i < 0 {
			continue
		}
		s := p.pc[i].String()
		if len(s) > 200 {
			s = s[:200] + "..."
		}
		sb.WriteString(" ; " + s)
	}
	return sb.String()
}

func (p *Path) describe() string {
	var sb strings.Builder
	fmt.Fprintf(&sb, "path: %d decisions, %d pc conjuncts, %d steps", len(p.trail), len(p.pc), p.steps)
	n := 0
	for _, c := range p.pc {
		if n >= 4 {
			sb.WriteString(" ; ...")
			break
		}
		s := c.String()
		if len(s) > 160 {
			s = s[:160] + "..."
		}
		sb.WriteString(" ; " + s)
		n++
	}
	return sb.String()
}

// witness records whether c is satisfiable on this path (vacuity guards and
// separation witnesses); it does not constrain the path.
func (p *Path) witness(id string, c *term.Term) {
	if !p.oblActive(id) {
		return
	}
	ob := OblResult{ID: id}
	if c.IsFalse() {
		ob.Status = "wunsat"
	} else if p.hasModel && p.evalT(c).Sign() != 0 {
		ob.Status = "wsat"
	} else {
		r, _, _ := p.feasible(c)
		switch r {
		case term.Sat:
			ob.Status = "wsat"
		case term.Unsat:
			ob.Status = "wunsat"
		default:
			ob.Status = "wunknown"
		}
	}
	p.res.mu.Lock()
	p.res.Obls = append(p.res.Obls, ob)
	p.res.mu.Unlock()
}

// FunctionsSeen lists the functions of the repository that were symbolically
// executed, with their SSA instruction counts.
func (x *Exec) FunctionsSeen(l *Loaded) []string {
	x.seenMu.Lock()
	defer x.seenMu.Unlock()
	var out []string
	for f, n := range x.seenFn {
		if f.Pkg == nil || !strings.HasPrefix(f.Pkg.Pkg.Path(), DecimalPath) {
			continue
		}
		if strings.HasPrefix(f.Name(), "v") && len(f.Name()) > 1 && f.Name()[1] >= 'A' && f.Name()[1] <= 'Z' {
			continue
		}
		ni := 0
		for _, b := range f.Blocks {
			ni += len(b.Instrs)
		}
		out = append(out, fmt.Sprintf("%s (%d SSA instrs, %d calls)", f.String(), ni, n))
	}
	sort.Strings(out)
	return out
}

func (x *Exec) ContractsUsed() map[string]int {
	x.seenMu.Lock()
	defer x.seenMu.Unlock()
	r := map[string]int{}
	for k, v := range x.usedContracts {
		r[k] = v
	}
	return r
}

func (x *Exec) noteContract(name string) {
	x.seenMu.Lock()
	if x.usedContracts == nil {
		x.usedContracts = map[string]int{}
	}
	x.usedContracts[name]++
	x.seenMu.Unlock()
}

// iteLeaves returns an over-approximation of the set of values a term can take
// when it is built from constants, ite, linear combinations and div/mod by
// constants of such terms (nil,false if it is not of that shape or the set is
// larger than max).
func iteLeaves(t *term.Term, max int) ([]*big.Int, bool) {
	memo := map[int][]*big.Int{}
	var rec func(x *term.Term) ([]*big.Int, bool)
	uniq := func(vs []*big.Int) []*big.Int {
		seen := map[string]bool{}
		var out []*big.Int
		for _, v := range vs {
			if !seen[v.String()] {
				seen[v.String()] = true
				out = append(out, v)
			}
		}
		return out
	}
	rec = func(x *term.Term) ([]*big.Int, bool) {
		if r, ok := memo[x.ID]; ok {
			return r, r != nil
		}
		var out []*big.Int
		ok := false
		switch x.Op {
		case term.OConst:
			out, ok = []*big.Int{x.C}, true
		case term.OIte:
			a, oka := rec(x.Args[1])
			b, okb := rec(x.Args[2])
			if oka && okb {
				out, ok = uniq(append(append([]*big.Int{}, a...), b...)), true
			}
		case term.OLin:
			cur := []*big.Int{new(big.Int).Set(x.C)}
			ok = true
			for i, a := range x.Args {
				vs, oka := rec(a)
				if !oka || len(cur)*len(vs) > 4*max {
					ok = false
					break
				}
				var nxt []*big.Int
				for _, c := range cur {
					for _, v := range vs {
						nxt = append(nxt, new(big.Int).Add(c, new(big.Int).Mul(v, x.Coef[i])))
					}
				}
				cur = uniq(nxt)
			}
			out = cur
		case term.OMod, term.ODiv:
			if x.Args[1].IsConst() && x.Args[1].C.Sign() > 0 {
				vs, oka := rec(x.Args[0])
				if oka {
					ok = true
					for _, v := range vs {
						q, m := new(big.Int).DivMod(v, x.Args[1].C, new(big.Int))
						if x.Op == term.OMod {
							out = append(out, m)
						} else {
							out = append(out, q)
						}
					}
					out = uniq(out)
				}
			}
		}
		if ok && len(out) > max {
			ok = false
		}
		if !ok {
			memo[x.ID] = nil
			return nil, false
		}
		memo[x.ID] = out
		return out, true
	}
	return rec(t)
}

// resolveSem eliminates from t every ite whose condition is decided by the
// path condition (checked with the solver), so that products are formed over
// plain linear forms.
func (p *Path) resolveSem(t *term.Term) *term.Term {
	if p.spec > 0 {
		return p.C.Resolve(t)
	}
	if len(p.C.IteConds(p.C.Resolve(t), 1)) == 0 {
		return p.C.Resolve(t)
	}
	if p.ti < len(p.trail) {
		d := p.trail[p.ti]
		p.ti++
		if !d.IsFact {
			panic(engineErr{"trail mismatch (facts expected) in resolveSem"})
		}
		for _, f := range d.Facts {
			ct := p.C.ByID(f.ID)
			if ct == nil {
				panic(engineErr{"trail mismatch (unknown term id) in resolveSem"})
			}
			p.C.LearnValue(ct, f.V)
		}
		return p.C.Resolve(t)
	}
	var facts []factRec
	for round := 0; round < 4; round++ {
		t = p.C.Resolve(t)
		conds := p.C.IteConds(t, 12)
		if len(conds) == 0 {
			break
		}
		learned := false
		for _, c := range conds {
			var guess bool
			if p.hasModel {
				guess = p.evalT(c).Sign() != 0
			} else {
				guess = true
			}
			test := c
			if guess {
				test = p.C.Not(c)
			}
			r, _, _ := p.S.CheckT(p.feasTimeout(), false, false, test)
			if p.S.Dead() {
				panic(engineErr{"solver process died (timeout watchdog or crash)"})
			}
			if r == term.Unsat {
				p.C.LearnValue(c, guess)
				facts = append(facts, factRec{c.ID, guess})
				learned = true
			} else if !p.hasModel {
				r2, _, _ := p.S.CheckT(p.feasTimeout(), false, false, c)
				if r2 == term.Unsat {
					p.C.LearnValue(c, false)
					facts = append(facts, factRec{c.ID, false})
					learned = true
				}
			}
		}
		if !learned {
			break
		}
	}
	p.trail = append(p.trail[:p.ti], Decision{IsFact: true, Facts: facts})
	p.ti++
	return p.C.Resolve(t)
}
