package sym

import (
	"golang.org/x/tools/go/ssa"

	"verif/engine/term"
)

// tryMerge executes the side-effect-free region below a symbolic If on both
// sides and joins the results with ite terms instead of forking the path.
// Any store, allocation, panic, solver decision or unsupported construct inside
// the region aborts the speculation and the caller forks as usual.

type mergeEdge struct {
	pred  *ssa.BasicBlock
	cond  *term.Term
	ret   Value
	isRet bool
}

type mergeFail struct{}

func (p *Path) tryMerge(fr *frame, block *ssa.BasicBlock, cond *term.Term) (nb, prev *ssa.BasicBlock, rv Value, done bool, ok bool) {
	if p.X.NoMerge {
		return
	}
	ifInstr := block.Instrs[len(block.Instrs)-1]
	// (no cross-path cache of failed merges: whether a region is mergeable depends on the
	// values on the path, and a shared cache would make path replay non-deterministic)
	_ = ifInstr
	var edges []mergeEdge
	var join *ssa.BasicBlock
	nblocks := 0
	static := false
	var visit func(b, from *ssa.BasicBlock, c *term.Term)
	visit = func(b, from *ssa.BasicBlock, c *term.Term) {
		if len(b.Preds) > 1 {
			if join == nil {
				join = b
			} else if join != b {
				static = true
				panic(mergeFail{})
			}
			edges = append(edges, mergeEdge{pred: from, cond: c})
			return
		}
		nblocks++
		if nblocks > 16 {
			static = true
			panic(mergeFail{})
		}
		for _, in := range b.Instrs {
			p.steps++
			switch x := in.(type) {
			case *ssa.DebugRef:
			case *ssa.Phi:
				fr.locals[x] = p.get(fr, x.Edges[0])
			case *ssa.If:
				cv := p.get(fr, x.Cond).(*term.Term)
				if cv.IsTrue() {
					visit(b.Succs[0], b, c)
				} else if cv.IsFalse() {
					visit(b.Succs[1], b, c)
				} else {
					visit(b.Succs[0], b, p.C.And(c, cv))
					visit(b.Succs[1], b, p.C.And(c, p.C.Not(cv)))
				}
				return
			case *ssa.Jump:
				visit(b.Succs[0], b, c)
				return
			case *ssa.Return:
				var rv Value
				switch len(x.Results) {
				case 0:
				case 1:
					rv = p.get(fr, x.Results[0])
				default:
					tv := make(TupleV, len(x.Results))
					for i, r := range x.Results {
						tv[i] = p.get(fr, r)
					}
					rv = tv
				}
				edges = append(edges, mergeEdge{cond: c, ret: rv, isRet: true})
				return
			case *ssa.Store, *ssa.Panic, *ssa.Defer, *ssa.RunDefers, *ssa.MapUpdate, *ssa.Go, *ssa.Send, *ssa.Select:
				static = true
				panic(mergeFail{})
			case ssa.Value:
				switch in.(type) {
				case *ssa.Alloc, *ssa.MakeSlice, *ssa.MakeMap, *ssa.MakeClosure:
					static = true
					panic(mergeFail{})
				}
				v, pn := p.eval(fr, x, in)
				if pn != nil {
					panic(mergeFail{})
				}
				fr.locals[x] = v
			default:
				static = true
				panic(mergeFail{})
			}
		}
	}
	failed := false
	func() {
		p.spec++
		defer func() {
			p.spec--
			if r := recover(); r != nil {
				switch r.(type) {
				case mergeFail, specAbort:
					failed = true
				default:
					panic(r)
				}
			}
		}()
		visit(block.Succs[0], block, cond)
		visit(block.Succs[1], block, p.C.Not(cond))
	}()
	if failed || len(edges) == 0 {
		_ = static
		return
	}
	nret := 0
	for _, e := range edges {
		if e.isRet {
			nret++
		}
	}
	if nret != 0 && nret != len(edges) {
		return
	}
	if len(fr.defers) > 0 && nret > 0 {
		return
	}
	fold := func(vals []Value) (Value, bool) {
		res := vals[len(vals)-1]
		for i := len(vals) - 2; i >= 0; i-- {
			m, ok := p.mergeValues(edges[i].cond, vals[i], res)
			if !ok {
				return nil, false
			}
			res = m
		}
		return res, true
	}
	if nret > 0 {
		vals := make([]Value, len(edges))
		for i, e := range edges {
			vals[i] = e.ret
		}
		if vals[0] == nil {
			p.merged++
			return nil, nil, nil, true, true
		}
		m, ok2 := fold(vals)
		if !ok2 {
			return
		}
		p.merged++
		return nil, nil, m, true, true
	}
	// join block: compute the phis
	var phis []*ssa.Phi
	for _, in := range join.Instrs {
		ph, isPhi := in.(*ssa.Phi)
		if !isPhi {
			break
		}
		phis = append(phis, ph)
	}
	newVals := make([]Value, len(phis))
	for k, ph := range phis {
		vals := make([]Value, len(edges))
		for i, e := range edges {
			idx := -1
			for j, pb := range join.Preds {
				if pb == e.pred {
					idx = j
				}
			}
			if idx < 0 {
				return
			}
			func() {
				defer func() {
					if r := recover(); r != nil {
						if _, isE := r.(engineErr); isE {
							failed = true
							return
						}
						panic(r)
					}
				}()
				vals[i] = p.get(fr, ph.Edges[idx])
			}()
			if failed {
				return
			}
		}
		m, ok2 := fold(vals)
		if !ok2 {
			return
		}
		newVals[k] = m
	}
	for k, ph := range phis {
		fr.locals[ph] = newVals[k]
	}
	p.merged++
	return join, edges[0].pred, nil, false, true
}

func (p *Path) mergeValues(c *term.Term, a, b Value) (Value, bool) {
	switch x := a.(type) {
	case *term.Term:
		y, ok := b.(*term.Term)
		if !ok || x.Bool != y.Bool {
			return nil, false
		}
		return p.C.Ite(c, x, y), true
	case FloatV:
		y, ok := b.(FloatV)
		if ok && (x.F == y.F || (x.F != x.F && y.F != y.F)) {
			return x, true
		}
		return nil, false
	case Pointer:
		y, ok := b.(Pointer)
		if ok && x.Obj == y.Obj && x.Off == y.Off {
			return x, true
		}
		return nil, false
	case SliceV:
		y, ok := b.(SliceV)
		if ok && x.Obj == y.Obj && x.Off == y.Off && x.Len == y.Len && x.Cap == y.Cap {
			return x, true
		}
		return nil, false
	case StringV:
		y, ok := b.(StringV)
		if !ok || len(x.B) != len(y.B) {
			return nil, false
		}
		r := make([]*term.Term, len(x.B))
		for i := range r {
			r[i] = p.C.Ite(c, x.B[i], y.B[i])
		}
		return StringV{r}, true
	case StructV:
		y, ok := b.(StructV)
		if !ok || len(x.F) != len(y.F) {
			return nil, false
		}
		r := make([]Value, len(x.F))
		for i := range r {
			m, ok := p.mergeValues(c, x.F[i], y.F[i])
			if !ok {
				return nil, false
			}
			r[i] = m
		}
		return StructV{r}, true
	case ArrayV:
		y, ok := b.(ArrayV)
		if !ok || len(x.E) != len(y.E) {
			return nil, false
		}
		r := make([]Value, len(x.E))
		for i := range r {
			m, ok := p.mergeValues(c, x.E[i], y.E[i])
			if !ok {
				return nil, false
			}
			r[i] = m
		}
		return ArrayV{r}, true
	case TupleV:
		y, ok := b.(TupleV)
		if !ok || len(x) != len(y) {
			return nil, false
		}
		r := make(TupleV, len(x))
		for i := range r {
			m, ok := p.mergeValues(c, x[i], y[i])
			if !ok {
				return nil, false
			}
			r[i] = m
		}
		return r, true
	case IfaceV:
		y, ok := b.(IfaceV)
		if !ok {
			return nil, false
		}
		if x.T == nil && y.T == nil {
			return x, true
		}
		if x.T == nil || y.T == nil || !typesIdentical(x.T, y.T) {
			return nil, false
		}
		m, ok := p.mergeValues(c, x.V, y.V)
		if !ok {
			return nil, false
		}
		return IfaceV{T: x.T, V: m}, true
	case FuncV:
		y, ok := b.(FuncV)
		if ok && x.Fn == y.Fn && x.Builtin == y.Builtin && len(x.Env) == 0 && len(y.Env) == 0 {
			return x, true
		}
		return nil, false
	case nil:
		if b == nil {
			return nil, true
		}
	}
	return nil, false
}
