package sym

import (
	"math/big"

	"golang.org/x/tools/go/ssa"

	"verif/engine/term"
)

// Contracts: callee summaries that may replace a function body (DESIGN 2.4,
// A.3). A summary is exact (it determines the outputs uniquely), its
// precondition is asserted at every call site (obligation "C07.pre.<fn>"), and
// the contract itself is proved against the real body by C07's check.

var DefaultContracts = []string{"decDigits64", "magic.div", "div10W_g"}

var contractTable = map[string]intrinsicFn{}

func (x *Exec) registerContracts() {
	d := DecimalPath + "."
	contractTable[d+"decDigits64"] = func(p *Path, fn *ssa.Function, a []Value) (Value, *Panic) {
		// n such that 10^(n-1) <= x < 10^n, 0 for x == 0
		v := T(a[0])
		r := p.C.Int(20)
		for k := 19; k >= 0; k-- {
			r = p.C.Ite(p.C.Lt(v, p.C.Const(term.Pow10(k))), p.C.Int(int64(k)), r)
		}
		return r, nil
	}
	contractTable["("+d+"magic).div"] = func(p *Path, fn *ssa.Function, a []Value) (Value, *Panic) {
		m := a[0].(StructV)
		dv := T(m.F[0])
		if !dv.IsConst() {
			return nil, nil // not applicable: fall back to the body
		}
		n := T(a[1])
		p.assert("C07.pre.magic.div", p.C.Lt(n, p.C.Const(bigD)), "magic.div operand below the base")
		return TupleV{p.C.DivC(n, dv.C), p.C.ModC(n, dv.C)}, nil
	}
	contractTable[d+"div10W_g"] = func(p *Path, fn *ssa.Function, a []Value) (Value, *Panic) {
		n1, n0 := T(a[0]), T(a[1])
		p.assert("C07.pre.div10W", p.C.Lt(n1, p.C.Const(bigD)), "div10W high word below the base")
		n := p.C.Add(p.C.MulC(n1, two64), n0)
		return TupleV{p.C.DivC(n, bigD), p.C.ModC(n, bigD)}, nil
	}
	_ = big.NewInt
}

// contract returns the enabled summary for fn, if any.
func (x *Exec) contract(fn *ssa.Function) (intrinsicFn, string) {
	if len(x.Contracts) == 0 {
		return nil, ""
	}
	name := fn.String()
	h, ok := contractTable[name]
	if !ok {
		return nil, ""
	}
	short := name[len(DecimalPath)+1:]
	if name[0] == '(' {
		short = "magic.div"
	}
	if !x.Contracts[short] {
		return nil, ""
	}
	return h, short
}
