package sym

import (
	"golang.org/x/tools/go/ssa"

	"verif/engine/term"
)

// Contracts: callee summaries that may replace a function body (DESIGN 2.4,
// A.3). A summary is exact (it determines the outputs uniquely), its
// precondition is asserted at every call site (obligation "C07.pre.<fn>"), and
// the contract itself is proved against the real body by C07's check.

var DefaultContracts = []string{"decDigits64", "magic.div", "div10W_g"}

var contractTable = map[string]intrinsicFn{}

func (x *Exec) registerContracts() {
	d := DecimalPath + "."
	contractTable[d+"decDigits64"] = func(p *Path, fn *ssa.Function, a []Value) (Value, *Panic) {
		// n such that 10^(n-1) <= x < 10^n, 0 for x == 0
		v := T(a[0])
		r := p.C.Int(20)
		for k := 19; k >= 0; k-- {
			r = p.C.Ite(p.C.Lt(v, p.C.Const(term.Pow10(k))), p.C.Int(int64(k)), r)
		}
		return r, nil
	}
	contractTable["("+d+"magic).div"] = func(p *Path, fn *ssa.Function, a []Value) (Value, *Panic) {
		m := a[0].(StructV)
		dv := T(m.F[0])
		if !dv.IsConst() {
			return nil, nil // not applicable: fall back to the body
		}
		n := T(a[1])
		p.assert("C07.pre.magic.div", p.C.Lt(n, p.C.Const(bigD)), "magic.div operand below the base")
		return TupleV{p.C.DivC(n, dv.C), p.C.ModC(n, dv.C)}, nil
	}
	contractTable[d+"div10W_g"] = func(p *Path, fn *ssa.Function, a []Value) (Value, *Panic) {
		n1, n0 := T(a[0]), T(a[1])
		p.assert("C07.pre.div10W", p.C.Lt(n1, p.C.Const(bigD)), "div10W high word below the base")
		n := p.C.Add(p.C.MulC(n1, two64), n0)
		return TupleV{p.C.DivC(n, bigD), p.C.ModC(n, bigD)}, nil
	}
	// ---- natural-number layer (proved by C06 from the real bodies)
	valOf := func(p *Path, v Value) (*term.Term, int) {
		sl := v.(SliceV)
		var parts []*term.Term
		for i := 0; i < sl.Len; i++ {
			parts = append(parts, p.C.MulC(sl.Obj.Cells[sl.Off+i].(*term.Term), term.Pow10(19*i)))
		}
		return p.C.Sum(parts...), sl.Len
	}
	// wordsOf builds a normalised dec holding the value v (< D^maxLen)
	wordsOf := func(p *Path, v *term.Term, maxLen int, what string) SliceV {
		C := p.C
		// number of base-D words: case split
		k := C.Int(int64(maxLen))
		for j := maxLen - 1; j >= 0; j-- {
			k = C.Ite(C.Lt(v, C.Const(term.Pow10(19*j))), C.Int(int64(j)), k)
		}
		n := int(p.concretize(k, "contract "+what+": result length"))
		et := p.X.wordType()
		o := p.newObject(et, n+4, what+" result")
		for i := 0; i < n; i++ {
			o.Cells[i] = C.ModC(C.DivC(v, term.Pow10(19*i)), bigD)
		}
		for i := n; i < n+4; i++ {
			o.Cells[i] = C.Int(0)
		}
		return SliceV{Obj: o, Len: n, Cap: n + 4, Elem: et, ESize: 1}
	}
	contractTable["("+d+"dec).mul"] = func(p *Path, fn *ssa.Function, a []Value) (Value, *Panic) {
		X, m := valOf(p, a[1])
		Y, n := valOf(p, a[2])
		if m == 0 || n == 0 {
			z := a[0].(SliceV)
			z.Len = 0
			return z, nil
		}
		if !X.IsConst() && !Y.IsConst() {
			p.nonlinear = true
		}
		return wordsOf(p, p.C.Mul(X, Y), m+n, "dec.mul"), nil
	}
	contractTable["("+d+"dec).sqr"] = func(p *Path, fn *ssa.Function, a []Value) (Value, *Panic) {
		X, m := valOf(p, a[1])
		if m == 0 {
			z := a[0].(SliceV)
			z.Len = 0
			return z, nil
		}
		if !X.IsConst() {
			p.nonlinear = true
		}
		return wordsOf(p, p.C.Mul(X, X), 2*m, "dec.sqr"), nil
	}
	contractTable["("+d+"dec).div"] = func(p *Path, fn *ssa.Function, a []Value) (Value, *Panic) {
		U, m := valOf(p, a[2])
		V, n := valOf(p, a[3])
		if n == 0 {
			return nil, &Panic{V: IfaceV{T: p.X.stringType(), V: p.strConst("division by zero")}, Where: "dec.div (contract)"}
		}
		// v is normalised by the callers (checked): V > 0
		p.assert("C06.pre.div.vnorm", p.C.Gt(V, p.C.Int(0)), "divisor is not zero")
		if !V.IsConst() {
			p.nonlinear = true
		}
		Q, R := p.C.Div(U, V), p.C.Mod(U, V)
		ql := m - n + 1
		if ql < 0 {
			ql = 0
		}
		q := wordsOf(p, Q, ql, "dec.div quotient")
		r := wordsOf(p, R, n, "dec.div remainder")
		return TupleV{q, r}, nil
	}
}

func (x *Exec) wordType() typesType {
	return x.Pkgs["decimal"].Type("Word").Type()
}

func (x *Exec) stringType() typesType {
	return x.Pkgs["decimal"].Prog.ImportedPackage("errors").Func("New").Signature.Params().At(0).Type()
}

// contract returns the enabled summary for fn, if any.
func (p *Path) contract(fn *ssa.Function) (intrinsicFn, string) {
	if len(p.contracts) == 0 {
		return nil, ""
	}
	name := fn.String()
	h, ok := contractTable[name]
	if !ok {
		return nil, ""
	}
	short := name[len(DecimalPath)+1:]
	if name[0] == '(' {
		// (pkg.T).m -> T.m
		i := len("(" + DecimalPath + ".")
		short = name[i:]
		for j := 0; j < len(short); j++ {
			if short[j] == ')' {
				short = short[:j] + short[j+1:]
				break
			}
		}
	}
	if !p.contracts[short] {
		return nil, ""
	}
	return h, short
}
