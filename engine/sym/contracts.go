package sym

// Contracts: callee summaries that may replace a function body. Each summary
// is the function's contract (DESIGN A.3); the contract itself is an
// obligation of C07's check, proved against the real body.

func (x *Exec) registerContracts() {}

var DefaultContracts = []string{}
