package sym

// Confinement mode (C18): ownership tags on objects, checked on every store.

type confineState struct {
	violations []string
}

func (p *Path) enableConfine() {
	p.confine = &confineState{}
}

func (p *Path) confinePoolGet() Value  { return IfaceV{} }
func (p *Path) confinePoolPut(v Value) {}
