package sym

// Confinement mode (C18). The schedule quantifier of "Decimals can be shared
// read-only between goroutines" is discharged by a non-interference argument
// whose premises are decided on every explored path:
//
//	P1 write confinement: during an operation every store targets the receiver
//	   (struct or a buffer it owns), an object allocated during the call, or a
//	   buffer obtained from the pool during the call - never an operand's
//	   struct or backing array (including words beyond len) and never a
//	   package-level variable.
//	P2 pool discipline: nothing is accessed through a buffer after putDec, no
//	   buffer is Put twice, and the result does not reference a pool buffer.
//
// sync.Pool.Get returns nil, a buffer Put earlier on this path, or a foreign
// buffer (Put by another goroutine) - the last two with unconstrained contents.

import (
	"fmt"
	"go/types"

	"golang.org/x/tools/go/ssa"

	"verif/engine/term"
)

const (
	ownerOperand  = 2
	ownerReceiver = 3
)

type confineState struct {
	active   bool
	startGen int
	pool     []Pointer // *dec values held by the pool model
	nHavoc   int
}

func (p *Path) enableConfine() {
	p.confine = &confineState{}
	p.onStore = func(in ssa.Instruction, o *Object) {
		cs := p.confine
		if cs == nil || !cs.active {
			return
		}
		if o.Freed {
			p.failNow("C18.pool.use-after-put", "store through a buffer that was returned to the pool at "+p.pos(in))
			return
		}
		switch o.Owner {
		case ownerOperand:
			p.failNow("C18.confine.operand", fmt.Sprintf("store into operand object %q at %s", o.Name, p.pos(in)))
		case ownerGlobal:
			p.failNow("C18.confine.global", fmt.Sprintf("store into package-level variable %q at %s", o.Name, p.pos(in)))
		}
	}
	p.onLoad = func(in ssa.Instruction, o *Object) {
		cs := p.confine
		if cs == nil || !cs.active {
			return
		}
		if o.Freed {
			p.failNow("C18.pool.use-after-put", "load through a buffer that was returned to the pool at "+p.pos(in))
		}
	}
}

// tagReachable marks the struct pointed to by ptr and the backing array of its
// mantissa slice with owner.
func (p *Path) tagDecimal(v Value, owner int) {
	ptr, ok := v.(Pointer)
	if !ok || ptr.IsNil() {
		return
	}
	ptr.Obj.Owner = owner
	for _, c := range ptr.Obj.Cells {
		if sl, ok := c.(SliceV); ok && sl.Obj != nil {
			sl.Obj.Owner = owner
		}
	}
}

func (p *Path) confinePoolGet() Value {
	cs := p.confine
	// 0: nil, 1: a buffer put earlier on this path, 2: a foreign buffer
	choices := []int64{0, 2}
	if len(cs.pool) > 0 {
		choices = append(choices, 1)
	}
	which := choices[0]
	if len(choices) > 1 {
		// fork over the pool's answers (no solver involved: all are possible)
		cs.nHavoc++
		v := p.C.Var(fmt.Sprintf("pool.choice%d", cs.nHavoc), p.C.Int(0).C, p.C.Int(int64(len(choices)-1)).C)
		which = choices[p.concretize(v, "sync.Pool.Get")]
	}
	decT := p.X.Pkgs["decimal"].Type("dec").Type()
	ptrT := types.NewPointer(decT)
	switch which {
	case 0:
		return IfaceV{}
	case 1:
		ptr := cs.pool[len(cs.pool)-1]
		cs.pool = cs.pool[:len(cs.pool)-1]
		ptr.Obj.Freed = false
		if sl, ok := ptr.Obj.Cells[ptr.Off].(SliceV); ok && sl.Obj != nil {
			sl.Obj.Freed = false
			p.havocCells(sl.Obj)
		}
		return IfaceV{T: ptrT, V: ptr}
	default:
		capx := int(p.job.Cfg["poolcap"])
		if capx == 0 {
			capx = 6
		}
		wt := p.X.wordType()
		buf := p.newObject(wt, capx, "foreign pool buffer")
		p.havocCells(buf)
		hdr := p.newObject(decT, 1, "foreign *dec")
		cs.nHavoc++
		hdr.Cells[0] = SliceV{Obj: buf, Len: 0, Cap: capx, Elem: wt, ESize: 1}
		return IfaceV{T: ptrT, V: Pointer{Obj: hdr, T: decT}}
	}
}

func (p *Path) havocCells(o *Object) {
	cs := p.confine
	for i := range o.Cells {
		cs.nHavoc++
		o.Cells[i] = p.C.Var(fmt.Sprintf("pool.stale%d", cs.nHavoc), p.C.Int(0).C, max64)
	}
}

func (p *Path) confinePoolPut(v Value) {
	cs := p.confine
	iv, ok := v.(IfaceV)
	if !ok || iv.T == nil {
		return
	}
	ptr, ok := iv.V.(Pointer)
	if !ok || ptr.IsNil() {
		return
	}
	if ptr.Obj.Freed {
		p.failNow("C18.pool.double-put", "buffer returned to the pool twice")
		return
	}
	if sl, ok := ptr.Obj.Cells[ptr.Off].(SliceV); ok && sl.Obj != nil {
		if sl.Obj.Owner == ownerOperand || sl.Obj.Owner == ownerReceiver {
			p.failNow("C18.pool.put-owned", "a buffer owned by an operand or by the receiver was returned to the pool")
		}
		sl.Obj.Freed = true
	}
	ptr.Obj.Freed = true
	cs.pool = append(cs.pool, ptr)
}

func (x *Exec) registerConfineIntrinsics() {
	for _, pk := range []string{DecimalPath} {
		pk := pk
		x.intr[pk+".vConfineBegin"] = func(p *Path, fn *ssa.Function, a []Value) (Value, *Panic) {
			if p.confine == nil {
				return nil, nil
			}
			p.tagDecimal(a[0], ownerReceiver)
			ops := a[1].(SliceV)
			for i := 0; i < ops.Len; i++ {
				p.tagDecimal(ops.Obj.Cells[ops.Off+i], ownerOperand)
			}
			p.confine.active = true
			return nil, nil
		}
		x.intr[pk+".vConfineEnd"] = func(p *Path, fn *ssa.Function, a []Value) (Value, *Panic) {
			if p.confine == nil {
				return nil, nil
			}
			p.confine.active = false
			// the result must not reference a buffer that sits in the pool
			if ptr, ok := a[0].(Pointer); ok && !ptr.IsNil() {
				for _, c := range ptr.Obj.Cells {
					if sl, ok := c.(SliceV); ok && sl.Obj != nil && sl.Obj.Freed {
						p.failNow("C18.pool.result-in-pool", "the receiver's mantissa is a buffer that was returned to the pool")
					}
				}
			}
			p.assert("C18.confine.checked", p.C.True, "")
			return nil, nil
		}
	}
	_ = term.Pow2
}
