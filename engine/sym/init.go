package sym

import (
	"golang.org/x/tools/go/ssa"
)

// initGlobals runs the package initialisers of the packages whose globals the
// explored code reads. Standard-library initialisers run best-effort.
func (p *Path) initGlobals() {
	std := []string{"errors", "io", "strconv", "math/big", "unicode/utf8", "strings", "bytes"}
	for _, name := range std {
		pkg := p.X.Prog.ImportedPackage(name)
		if pkg == nil {
			continue
		}
		p.runInit(pkg, true)
	}
	p.runInit(p.X.Pkgs["decimal"], false)
	if c := p.X.Pkgs["context"]; c != nil {
		p.runInit(c, false)
	}
	p.gen = 1
}

func (p *Path) runInit(pkg *ssa.Package, bestEffort bool) {
	fn := pkg.Func("init")
	if fn == nil || len(fn.Blocks) == 0 {
		return
	}
	p.initPkg = pkg
	defer func() { p.initPkg = nil }()
	if bestEffort {
		defer func() {
			if r := recover(); r != nil {
				if _, ok := r.(engineErr); ok {
					return
				}
				panic(r)
			}
		}()
	}
	steps := p.steps
	_, pn := p.Call(fn, nil, nil, nil)
	p.steps = steps
	if pn != nil && !bestEffort {
		panic(engineErr{"package init panicked: " + pn.String()})
	}
}
