package sym

import (
	"fmt"
	"go/types"
	"math"
	"math/big"
	"strconv"
	"strings"

	"golang.org/x/tools/go/ssa"

	"verif/engine/term"
)

type intrinsicFn func(p *Path, fn *ssa.Function, args []Value) (Value, *Panic)

func (x *Exec) intrinsic(fn *ssa.Function) intrinsicFn {
	name := fn.String()
	if h, ok := x.intr[name]; ok {
		return h
	}
	return nil
}

var (
	two64  = term.Pow2(64)
	max64  = new(big.Int).Sub(term.Pow2(64), big.NewInt(1))
	maxI64 = new(big.Int).Sub(term.Pow2(63), big.NewInt(1))
	minI64 = new(big.Int).Neg(term.Pow2(63))
	bigD   = term.Pow10(19)
)

func T(v Value) *term.Term { return v.(*term.Term) }

func strOf(v Value) string {
	s := v.(StringV)
	b := make([]byte, len(s.B))
	for i, t := range s.B {
		if !t.IsConst() {
			panic(engineErr{"symbolic string where a concrete one is required"})
		}
		b[i] = byte(t.C.Int64())
	}
	return string(b)
}

func (x *Exec) registerIntrinsics() {
	x.intr = map[string]intrinsicFn{}
	reg := func(names []string, h intrinsicFn) {
		for _, n := range names {
			x.intr[n] = h
		}
	}
	// ------------------------------------------------------------ math/bits
	reg([]string{"math/bits.Mul64", "math/bits.Mul"}, func(p *Path, fn *ssa.Function, a []Value) (Value, *Panic) {
		x0, y0 := T(a[0]), T(a[1])
		if !x0.IsConst() && !y0.IsConst() {
			p.nonlinear = true
			x0, y0 = p.resolveSem(x0), p.resolveSem(y0)
		}
		pr := p.C.Mul(x0, y0)
		return TupleV{p.C.DivC(pr, two64), p.C.ModC(pr, two64)}, nil
	})
	reg([]string{"math/bits.Add64", "math/bits.Add"}, func(p *Path, fn *ssa.Function, a []Value) (Value, *Panic) {
		// carry input is documented to be 0 or 1
		s := p.C.Sum(T(a[0]), T(a[1]), T(a[2]))
		lo := p.C.WrapU(s, 64)
		carry := p.C.DivC(s, two64)
		if !s.HiLt(new(big.Int).Lsh(two64, 1)) {
			carry = p.C.ModC(carry, two64)
		} else {
			carry = p.C.Ite(p.C.Ge(s, p.C.Const(two64)), p.C.Int(1), p.C.Int(0))
		}
		return TupleV{lo, carry}, nil
	})
	reg([]string{"math/bits.Sub64", "math/bits.Sub"}, func(p *Path, fn *ssa.Function, a []Value) (Value, *Panic) {
		d := p.C.Sub(p.C.Sub(T(a[0]), T(a[1])), T(a[2]))
		lo := p.C.WrapU(d, 64)
		borrow := p.C.Ite(p.C.Lt(d, p.C.Int(0)), p.C.Int(1), p.C.Int(0))
		return TupleV{lo, borrow}, nil
	})
	reg([]string{"math/bits.Div64", "math/bits.Div"}, func(p *Path, fn *ssa.Function, a []Value) (Value, *Panic) {
		hi, lo, y := T(a[0]), T(a[1]), T(a[2])
		if p.decide(p.C.Eq(y, p.C.Int(0)), "bits.Div:zero") {
			return nil, p.rtPanic(nil, "integer divide by zero (bits.Div)")
		}
		if p.decide(p.C.Le(y, hi), "bits.Div:overflow") {
			return nil, p.rtPanic(nil, "integer overflow (bits.Div)")
		}
		n := p.C.Add(p.C.MulC(hi, two64), lo)
		if !y.IsConst() {
			p.nonlinear = true
		}
		return TupleV{p.C.Div(n, y), p.C.Mod(n, y)}, nil
	})
	lenChain := func(p *Path, v *term.Term, w int) *term.Term {
		r := p.C.Int(int64(w))
		for k := w - 1; k >= 0; k-- {
			r = p.C.Ite(p.C.Lt(v, p.C.Const(term.Pow2(k))), p.C.Int(int64(k)), r)
		}
		return r
	}
	reg([]string{"math/bits.Len64", "math/bits.Len"}, func(p *Path, fn *ssa.Function, a []Value) (Value, *Panic) {
		return lenChain(p, T(a[0]), 64), nil
	})
	// math/big's bitLen smears the top word with shifts and ORs (constant-time
	// hardening) before calling bits.Len; its value is simply the bit length
	reg([]string{"(math/big.nat).bitLen"}, func(p *Path, fn *ssa.Function, a []Value) (Value, *Panic) {
		x := a[0].(SliceV)
		if x.Len == 0 {
			return p.C.Int(0), nil
		}
		top := x.Obj.Cells[x.Off+x.Len-1].(*term.Term)
		return p.C.AddC(lenChain(p, top, 64), big.NewInt(int64(64*(x.Len-1)))), nil
	})
	// (*big.Rat).norm divides numerator and denominator by their gcd (lehmerGCD: loops over the
	// operand values). The VALUE num/den is unchanged by it, and harnesses compare values by
	// cross-multiplication, so the reduction is skipped: the fraction stays un-normalised.
	reg([]string{"(*math/big.Rat).norm"}, func(p *Path, fn *ssa.Function, a []Value) (Value, *Panic) {
		p.X.noteContract("model:big.Rat.norm(no reduction)")
		return a[0], nil
	})
	reg([]string{"math/bits.Len32"}, func(p *Path, fn *ssa.Function, a []Value) (Value, *Panic) {
		return lenChain(p, T(a[0]), 32), nil
	})
	reg([]string{"math/bits.LeadingZeros64", "math/bits.LeadingZeros"}, func(p *Path, fn *ssa.Function, a []Value) (Value, *Panic) {
		return p.C.Sub(p.C.Int(64), lenChain(p, T(a[0]), 64)), nil
	})
	reg([]string{"math/bits.TrailingZeros64", "math/bits.TrailingZeros"}, func(p *Path, fn *ssa.Function, a []Value) (Value, *Panic) {
		v := T(a[0])
		r := p.C.Int(64)
		for k := 63; k >= 0; k-- {
			r = p.C.Ite(p.C.Ne(p.C.ModC(v, term.Pow2(k+1)), p.C.Int(0)), p.C.Int(int64(k)), r)
		}
		return r, nil
	})
	// ------------------------------------------------------------ math (concrete floats)
	f1 := func(f func(float64) float64) intrinsicFn {
		return func(p *Path, fn *ssa.Function, a []Value) (Value, *Panic) {
			return FloatV{f(a[0].(FloatV).F)}, nil
		}
	}
	x.intr["math.Ceil"] = f1(math.Ceil)
	x.intr["math.Floor"] = f1(math.Floor)
	x.intr["math.Log10"] = f1(math.Log10)
	x.intr["math.Log2"] = f1(math.Log2)
	x.intr["math.Sqrt"] = f1(math.Sqrt)
	x.intr["math.Trunc"] = f1(math.Trunc)
	x.intr["math.Abs"] = f1(math.Abs)
	x.intr["math.IsNaN"] = func(p *Path, fn *ssa.Function, a []Value) (Value, *Panic) {
		return p.C.BoolC(math.IsNaN(a[0].(FloatV).F)), nil
	}
	x.intr["math.IsInf"] = func(p *Path, fn *ssa.Function, a []Value) (Value, *Panic) {
		return p.C.BoolC(math.IsInf(a[0].(FloatV).F, int(T(a[1]).Int64()))), nil
	}
	x.intr["math.Signbit"] = func(p *Path, fn *ssa.Function, a []Value) (Value, *Panic) {
		return p.C.BoolC(math.Signbit(a[0].(FloatV).F)), nil
	}
	x.intr["math.Float64bits"] = func(p *Path, fn *ssa.Function, a []Value) (Value, *Panic) {
		return p.C.Uint(math.Float64bits(a[0].(FloatV).F)), nil
	}
	x.intr["math.Float64frombits"] = func(p *Path, fn *ssa.Function, a []Value) (Value, *Panic) {
		t := T(a[0])
		if !t.IsConst() {
			v := p.concretizeBig(t, "Float64frombits")
			return FloatV{math.Float64frombits(v.Uint64())}, nil
		}
		return FloatV{math.Float64frombits(t.C.Uint64())}, nil
	}
	x.intr["math.Frexp"] = func(p *Path, fn *ssa.Function, a []Value) (Value, *Panic) {
		fr, e := math.Frexp(a[0].(FloatV).F)
		return TupleV{FloatV{fr}, p.C.Int(int64(e))}, nil
	}
	// ------------------------------------------------------------ fmt / errors (opaque)
	opaqueErr := func(p *Path, fn *ssa.Function, a []Value) (Value, *Panic) {
		return p.opaqueError("fmt.Errorf"), nil
	}
	x.intr["fmt.Errorf"] = opaqueErr
	x.intr["fmt.Sprintf"] = func(p *Path, fn *ssa.Function, a []Value) (Value, *Panic) {
		return p.strConst("<fmt.Sprintf>"), nil
	}
	x.intr["fmt.Fprintf"] = func(p *Path, fn *ssa.Function, a []Value) (Value, *Panic) {
		return TupleV{p.C.Int(0), IfaceV{}}, nil
	}
	x.intr["errors.As"] = func(p *Path, fn *ssa.Function, a []Value) (Value, *Panic) {
		return p.errorsAs(a[0], a[1])
	}
	// ------------------------------------------------------------ sync.Pool
	x.intr["(*sync.Pool).Get"] = func(p *Path, fn *ssa.Function, a []Value) (Value, *Panic) {
		return p.poolGet(), nil
	}
	x.intr["(*sync.Pool).Put"] = func(p *Path, fn *ssa.Function, a []Value) (Value, *Panic) {
		p.poolPut(a[1])
		return nil, nil
	}
	// ------------------------------------------------------------ strconv models
	x.intr["strconv.AppendInt"] = func(p *Path, fn *ssa.Function, a []Value) (Value, *Panic) {
		return p.appendInt(a[0].(SliceV), T(a[1]), T(a[2])), nil
	}
	x.intr["strconv.Itoa"] = func(p *Path, fn *ssa.Function, a []Value) (Value, *Panic) {
		v := p.concretize(T(a[0]), "strconv.Itoa")
		return p.strConst(strconv.Itoa(int(v))), nil
	}
	x.registerHarnessIntrinsics()
	x.registerConfineIntrinsics()
	x.registerContracts()
}

func (p *Path) opaqueError(msg string) Value {
	ep := p.X.Prog.ImportedPackage("errors")
	if ep != nil {
		if f := ep.Func("New"); f != nil {
			v, _ := p.Call(f, []Value{p.strConst(msg)}, nil, nil)
			return v
		}
	}
	panic(engineErr{"errors.New unavailable"})
}

// errorsAs models errors.As by its documented rule for error values that do
// not wrap other errors and have no As method.
func (p *Path) errorsAs(errV, target Value) (Value, *Panic) {
	tv, ok := target.(IfaceV)
	if !ok || tv.T == nil {
		return nil, &Panic{Runtime: "errors: target cannot be nil", Where: "errors.As", V: IfaceV{T: p.X.rtErrType, V: p.strConst("errors: target cannot be nil")}}
	}
	pt, ok := tv.T.Underlying().(*types.Pointer)
	if !ok {
		return nil, &Panic{Runtime: "errors: target must be a non-nil pointer", Where: "errors.As", V: IfaceV{T: p.X.rtErrType, V: p.strConst("errors: target must be a non-nil pointer")}}
	}
	ptr := tv.V.(Pointer)
	if ptr.IsNil() {
		return nil, &Panic{Runtime: "errors: target must be a non-nil pointer", Where: "errors.As", V: IfaceV{T: p.X.rtErrType, V: p.strConst("errors: target must be a non-nil pointer")}}
	}
	ev, _ := errV.(IfaceV)
	if ev.T == nil {
		return p.C.False, nil
	}
	elem := pt.Elem()
	if types.IsInterface(elem) {
		if types.Implements(ev.T, elem.Underlying().(*types.Interface)) {
			if pn := p.store(nil, ptr, elem, ev); pn != nil {
				return nil, pn
			}
			return p.C.True, nil
		}
		return p.C.False, nil
	}
	if types.Identical(ev.T, elem) {
		if pn := p.store(nil, ptr, elem, ev.V); pn != nil {
			return nil, pn
		}
		return p.C.True, nil
	}
	return p.C.False, nil
}

// ---------------------------------------------------------------- sync.Pool model

func (p *Path) poolGet() Value {
	if p.confine != nil {
		return p.confinePoolGet()
	}
	return IfaceV{}
}

func (p *Path) poolPut(v Value) {
	if p.confine != nil {
		p.confinePoolPut(v)
	}
}

// ---------------------------------------------------------------- strconv.AppendInt model

// appendInt appends the base-10 text of v; the number of digits is case-split.
func (p *Path) appendInt(dst SliceV, v, base *term.Term) Value {
	if !base.IsConst() || base.C.Int64() != 10 {
		p.unsupported("strconv.AppendInt with base != 10")
	}
	C := p.C
	neg := false
	mag := v
	if !v.NonNeg() {
		if p.decide(C.Lt(v, C.Int(0)), "AppendInt:sign") {
			neg = true
			mag = C.Neg(v)
		}
	}
	// digit count
	nd := 1
	for ; nd < 20; nd++ {
		if !p.decide(C.Ge(mag, C.Const(term.Pow10(nd))), "AppendInt:digits") {
			break
		}
	}
	var bytes []Value
	if neg {
		bytes = append(bytes, C.Int('-'))
	}
	for i := nd - 1; i >= 0; i-- {
		d := C.ModC(C.DivC(mag, term.Pow10(i)), big.NewInt(10))
		bytes = append(bytes, C.AddC(d, big.NewInt('0')))
	}
	// append
	if dst.Len+len(bytes) <= dst.Cap && dst.Obj != nil {
		if p.onStore != nil {
			p.onStore(nil, dst.Obj)
		}
		copy(dst.Obj.Cells[dst.Off+dst.Len:], bytes)
		dst.Len += len(bytes)
		return dst
	}
	ncap := 2*dst.Cap + len(bytes)
	et := types.Typ[types.Uint8]
	o := p.newObject(et, ncap, "AppendInt")
	if dst.Len > 0 {
		copy(o.Cells, dst.Obj.Cells[dst.Off:dst.Off+dst.Len])
	}
	copy(o.Cells[dst.Len:], bytes)
	return SliceV{Obj: o, Len: dst.Len + len(bytes), Cap: ncap, Elem: et, ESize: 1}
}

// ---------------------------------------------------------------- harness vocabulary

func (x *Exec) registerHarnessIntrinsics() {
	for _, pk := range []string{DecimalPath, DecimalPath + "/context"} {
		pk := pk
		r := func(name string, h intrinsicFn) { x.intr[pk+"."+name] = h }
		r("vCfg", func(p *Path, fn *ssa.Function, a []Value) (Value, *Panic) {
			n := strOf(a[0])
			v, ok := p.job.Cfg[n]
			if !ok {
				panic(engineErr{"vCfg: missing configuration key " + n})
			}
			return p.C.Int(v), nil
		})
		r("vCfgOr", func(p *Path, fn *ssa.Function, a []Value) (Value, *Panic) {
			n := strOf(a[0])
			v, ok := p.job.Cfg[n]
			if !ok {
				return a[1], nil
			}
			return p.C.Int(v), nil
		})
		r("vU64", func(p *Path, fn *ssa.Function, a []Value) (Value, *Panic) {
			n := strOf(a[0])
			lo, hi := T(a[1]), T(a[2])
			if !lo.IsConst() || !hi.IsConst() {
				panic(engineErr{"vU64: bounds must be concrete"})
			}
			if lo.C.Cmp(hi.C) > 0 {
				panic(abortPath{"vU64: empty range " + n})
			}
			v := p.C.Var(n, lo.C, hi.C)
			p.inputs[n] = v
			return v, nil
		})
		r("vI64", func(p *Path, fn *ssa.Function, a []Value) (Value, *Panic) {
			n := strOf(a[0])
			lo, hi := T(a[1]), T(a[2])
			if !lo.IsConst() || !hi.IsConst() {
				panic(engineErr{"vI64: bounds must be concrete"})
			}
			if lo.C.Cmp(hi.C) > 0 {
				panic(abortPath{"vI64: empty range " + n})
			}
			v := p.C.Var(n, lo.C, hi.C)
			p.inputs[n] = v
			return v, nil
		})
		r("vBool", func(p *Path, fn *ssa.Function, a []Value) (Value, *Panic) {
			n := strOf(a[0])
			v := p.C.Var(n, big.NewInt(0), big.NewInt(1))
			p.inputs[n] = v
			return p.C.Eq(v, p.C.Int(1)), nil
		})
		r("vN", func(p *Path, fn *ssa.Function, a []Value) (Value, *Panic) {
			return p.strConst(strOf(a[0]) + strconv.FormatInt(T(a[1]).Int64(), 10)), nil
		})
		r("vAssume", func(p *Path, fn *ssa.Function, a []Value) (Value, *Panic) {
			p.assume(T(a[0]), "vAssume")
			return nil, nil
		})
		r("vAssert", func(p *Path, fn *ssa.Function, a []Value) (Value, *Panic) {
			p.assert(strOf(a[0]), T(a[1]), "")
			return nil, nil
		})
		r("vReach", func(p *Path, fn *ssa.Function, a []Value) (Value, *Panic) {
			id := strOf(a[0])
			p.res.mu.Lock()
			p.res.Reached[id]++
			p.res.mu.Unlock()
			return nil, nil
		})
		r("vConcI", func(p *Path, fn *ssa.Function, a []Value) (Value, *Panic) {
			return p.C.Const(p.concretizeBig(T(a[0]), "vConcI")), nil
		})
		r("vConcU", func(p *Path, fn *ssa.Function, a []Value) (Value, *Panic) {
			return p.C.Const(p.concretizeBig(T(a[0]), "vConcU")), nil
		})
		r("vIsConc", func(p *Path, fn *ssa.Function, a []Value) (Value, *Panic) {
			return p.C.BoolC(T(a[0]).IsConst()), nil
		})
		r("vCatch", func(p *Path, fn *ssa.Function, a []Value) (Value, *Panic) {
			_, pn := p.invoke(a[0], nil, nil, nil)
			if pn == nil {
				return p.C.Int(0), nil
			}
			p.lastRecovered = pn
			if iv, ok := pn.V.(IfaceV); ok && iv.T != nil && pn.Runtime == "" {
				if nt, ok := iv.T.(*types.Named); ok && nt.Obj().Name() == "ErrNaN" && nt.Obj().Pkg() != nil && nt.Obj().Pkg().Path() == DecimalPath {
					return p.C.Int(1), nil
				}
			}
			p.res.mu.Lock()
			if len(p.res.Samples) < 6 {
				p.res.Samples = append(p.res.Samples, "caught: "+pn.String())
			}
			p.res.mu.Unlock()
			return p.C.Int(2), nil
		})
		// ---- spec integers (unbounded)
		r("sU", func(p *Path, fn *ssa.Function, a []Value) (Value, *Panic) { return a[0], nil })
		r("sI", func(p *Path, fn *ssa.Function, a []Value) (Value, *Panic) { return a[0], nil })
		r("sAdd", func(p *Path, fn *ssa.Function, a []Value) (Value, *Panic) { return p.C.Add(T(a[0]), T(a[1])), nil })
		r("sSub", func(p *Path, fn *ssa.Function, a []Value) (Value, *Panic) { return p.C.Sub(T(a[0]), T(a[1])), nil })
		r("sMul", func(p *Path, fn *ssa.Function, a []Value) (Value, *Panic) { return p.C.Mul(T(a[0]), T(a[1])), nil })
		r("sNeg", func(p *Path, fn *ssa.Function, a []Value) (Value, *Panic) { return p.C.Neg(T(a[0])), nil })
		pow := func(p *Path, v Value) *big.Int {
			k := T(v)
			if !k.IsConst() {
				panic(engineErr{"spec: power-of-ten exponent must be concrete (use vConcI)"})
			}
			if k.C.Sign() < 0 || k.C.Cmp(big.NewInt(5000)) > 0 {
				panic(engineErr{"spec: power-of-ten exponent out of range: " + k.C.String()})
			}
			return term.Pow10(int(k.C.Int64()))
		}
		r("sMulPow10", func(p *Path, fn *ssa.Function, a []Value) (Value, *Panic) {
			return p.C.MulC(T(a[0]), pow(p, a[1])), nil
		})
		r("sDivPow10", func(p *Path, fn *ssa.Function, a []Value) (Value, *Panic) {
			return p.C.DivC(T(a[0]), pow(p, a[1])), nil
		})
		r("sModPow10", func(p *Path, fn *ssa.Function, a []Value) (Value, *Panic) {
			return p.C.ModC(T(a[0]), pow(p, a[1])), nil
		})
		r("sPow10", func(p *Path, fn *ssa.Function, a []Value) (Value, *Panic) { return p.C.Const(pow(p, a[0])), nil })
		r("sMulPow2", func(p *Path, fn *ssa.Function, a []Value) (Value, *Panic) {
			return p.C.MulC(T(a[0]), term.Pow2(int(T(a[1]).Int64()))), nil
		})
		r("sDiv", func(p *Path, fn *ssa.Function, a []Value) (Value, *Panic) { return p.C.Div(T(a[0]), T(a[1])), nil })
		r("sMod", func(p *Path, fn *ssa.Function, a []Value) (Value, *Panic) { return p.C.Mod(T(a[0]), T(a[1])), nil })
		r("sEq", func(p *Path, fn *ssa.Function, a []Value) (Value, *Panic) { return p.C.Eq(T(a[0]), T(a[1])), nil })
		r("sLt", func(p *Path, fn *ssa.Function, a []Value) (Value, *Panic) { return p.C.Lt(T(a[0]), T(a[1])), nil })
		r("sLe", func(p *Path, fn *ssa.Function, a []Value) (Value, *Panic) { return p.C.Le(T(a[0]), T(a[1])), nil })
		r("specByte", func(p *Path, fn *ssa.Function, a []Value) (Value, *Panic) { return a[0], nil })
		r("sOdd", func(p *Path, fn *ssa.Function, a []Value) (Value, *Panic) {
			return p.C.Eq(p.C.ModC(T(a[0]), big.NewInt(2)), p.C.Int(1)), nil
		})
		r("sIsZero", func(p *Path, fn *ssa.Function, a []Value) (Value, *Panic) { return p.C.Eq(T(a[0]), p.C.Int(0)), nil })
		r("sIte", func(p *Path, fn *ssa.Function, a []Value) (Value, *Panic) {
			return p.C.Ite(T(a[0]), T(a[1]), T(a[2])), nil
		})
		r("sFromWords", func(p *Path, fn *ssa.Function, a []Value) (Value, *Panic) {
			s := a[0].(SliceV)
			var parts []*term.Term
			for i := 0; i < s.Len; i++ {
				w := s.Obj.Cells[s.Off+i].(*term.Term)
				parts = append(parts, p.C.MulC(w, term.Pow10(19*i)))
			}
			return p.C.Sum(parts...), nil
		})
		r("sFromBinWords", func(p *Path, fn *ssa.Function, a []Value) (Value, *Panic) {
			s := a[0].(SliceV)
			var parts []*term.Term
			for i := 0; i < s.Len; i++ {
				w := s.Obj.Cells[s.Off+i].(*term.Term)
				parts = append(parts, p.C.MulC(w, term.Pow2(64*i)))
			}
			return p.C.Sum(parts...), nil
		})
		r("sFromBytesBE", func(p *Path, fn *ssa.Function, a []Value) (Value, *Panic) {
			s := a[0].(SliceV)
			var parts []*term.Term
			for i := 0; i < s.Len; i++ {
				w := s.Obj.Cells[s.Off+i].(*term.Term)
				parts = append(parts, p.C.MulC(w, term.Pow2(8*(s.Len-1-i))))
			}
			return p.C.Sum(parts...), nil
		})
		// boolean helpers that never fork
		r("vAnd", func(p *Path, fn *ssa.Function, a []Value) (Value, *Panic) {
			return p.C.And(T(a[0]), T(a[1])), nil
		})
		r("vOr", func(p *Path, fn *ssa.Function, a []Value) (Value, *Panic) {
			return p.C.Or(T(a[0]), T(a[1])), nil
		})
		r("vImp", func(p *Path, fn *ssa.Function, a []Value) (Value, *Panic) {
			return p.C.Implies(T(a[0]), T(a[1])), nil
		})
		r("vIteU", func(p *Path, fn *ssa.Function, a []Value) (Value, *Panic) {
			return p.C.Ite(T(a[0]), T(a[1]), T(a[2])), nil
		})
		r("vIteI", func(p *Path, fn *ssa.Function, a []Value) (Value, *Panic) {
			return p.C.Ite(T(a[0]), T(a[1]), T(a[2])), nil
		})
		r("vSamePtr", func(p *Path, fn *ssa.Function, a []Value) (Value, *Panic) {
			x, y := a[0].(SliceV), a[1].(SliceV)
			return p.C.BoolC(x.Obj == y.Obj && x.Obj != nil), nil
		})
		r("vWitness", func(p *Path, fn *ssa.Function, a []Value) (Value, *Panic) {
			p.witness(strOf(a[0]), T(a[1]))
			return nil, nil
		})
		r("vKnown", func(p *Path, fn *ssa.Function, a []Value) (Value, *Panic) {
			p.known[strOf(a[0])] = T(a[1])
			return nil, nil
		})
		r("vDump", func(p *Path, fn *ssa.Function, a []Value) (Value, *Panic) {
			t := T(a[1])
			fmt.Printf("DUMP %s = %s   in [%v, %v]\n", strOf(a[0]), t.String(), t.Lo, t.Hi)
			return nil, nil
		})
		r("vNote", func(p *Path, fn *ssa.Function, a []Value) (Value, *Panic) {
			return nil, nil
		})
	}
}

func init() {
	_ = fmt.Sprint
	_ = strings.TrimSpace
}
