package sym

// p9sym: symbolic execution of the Plan 9 amd64 assembly kernels
// (dec_arith_amd64.s, arith_amd64.s) on gosym's memory objects and terms, so
// that an assembly routine and its portable Go twin can be compared as terms
// over the same input symbols (C07). Instruction semantics: DESIGN appendix B.

import (
	"fmt"
	"math/big"
	"os"
	"path/filepath"
	"regexp"
	"strconv"
	"strings"

	"golang.org/x/tools/go/ssa"

	"verif/engine/term"
)

type asmOperand struct {
	kind  string // imm, reg, fp, mem, sym
	imm   *big.Int
	reg   string
	fpOff int64
	fpNm  string
	base  string
	index string
	scale int64
	disp  int64
	sym   string
}

type asmInstr struct {
	op   string
	args []asmOperand
	line int
	text string
}

type asmFunc struct {
	name   string
	instrs []asmInstr
	labels map[string]int
	file   string
}

type asmProgram struct {
	funcs map[string]*asmFunc
	files []string
}

var asmRegs = map[string]bool{"AX": true, "BX": true, "CX": true, "DX": true, "SI": true, "DI": true, "R8": true, "R9": true, "R10": true, "R11": true, "R12": true, "R13": true, "R14": true, "R15": true, "BP": true}

var reMem = regexp.MustCompile(`^(-?[0-9a-zA-Z_x]*)?(?:\(([A-Z0-9]+)\))?(?:\(([A-Z0-9]+)\*([0-9]+)\))?$`)
var reFP = regexp.MustCompile(`^([A-Za-z0-9_]+)\+(-?[0-9]+)\(FP\)$`)
var reSB = regexp.MustCompile(`^([·A-Za-z0-9_]+)\(SB\)$`)

func parseInt(s string, defs map[string]string) (*big.Int, bool) {
	if v, ok := defs[s]; ok {
		s = v
	}
	neg := false
	if strings.HasPrefix(s, "-") {
		neg = true
		s = s[1:]
	}
	v, ok := new(big.Int).SetString(s, 0)
	if !ok {
		return nil, false
	}
	if neg {
		v.Neg(v)
	}
	return v, true
}

func parseOperand(s string, defs map[string]string) (asmOperand, error) {
	s = strings.TrimSpace(s)
	if strings.HasPrefix(s, "$") {
		v, ok := parseInt(s[1:], defs)
		if !ok {
			return asmOperand{}, fmt.Errorf("bad immediate %q", s)
		}
		return asmOperand{kind: "imm", imm: v}, nil
	}
	if asmRegs[s] {
		return asmOperand{kind: "reg", reg: s}, nil
	}
	if m := reFP.FindStringSubmatch(s); m != nil {
		off, _ := strconv.ParseInt(m[2], 10, 64)
		return asmOperand{kind: "fp", fpNm: m[1], fpOff: off}, nil
	}
	if m := reSB.FindStringSubmatch(s); m != nil {
		return asmOperand{kind: "sym", sym: strings.TrimPrefix(m[1], "·")}, nil
	}
	if m := reMem.FindStringSubmatch(s); m != nil && (m[2] != "" || m[3] != "") {
		op := asmOperand{kind: "mem", base: m[2], index: m[3], scale: 1}
		if m[1] != "" {
			v, ok := parseInt(m[1], defs)
			if !ok {
				return asmOperand{}, fmt.Errorf("bad displacement in %q", s)
			}
			op.disp = v.Int64()
		}
		if m[4] != "" {
			op.scale, _ = strconv.ParseInt(m[4], 10, 64)
		}
		return op, nil
	}
	// bare label
	return asmOperand{kind: "label", sym: s}, nil
}

func parseAsmFile(path string, prog *asmProgram) error {
	b, err := os.ReadFile(path)
	if err != nil {
		return err
	}
	defs := map[string]string{}
	var cur *asmFunc
	for ln, line := range strings.Split(string(b), "\n") {
		if i := strings.Index(line, "//"); i >= 0 {
			line = line[:i]
		}
		line = strings.TrimSpace(line)
		if line == "" {
			continue
		}
		if strings.HasPrefix(line, "#define") {
			f := strings.Fields(line)
			if len(f) >= 3 {
				defs[f[1]] = f[2]
			}
			continue
		}
		if strings.HasPrefix(line, "#") {
			continue
		}
		if strings.HasPrefix(line, "TEXT") {
			m := regexp.MustCompile(`^TEXT\s+([·A-Za-z0-9_]+)\(SB\)`).FindStringSubmatch(line)
			if m == nil {
				return fmt.Errorf("%s:%d: cannot parse TEXT", path, ln+1)
			}
			cur = &asmFunc{name: strings.TrimPrefix(m[1], "·"), labels: map[string]int{}, file: filepath.Base(path)}
			prog.funcs[cur.name] = cur
			continue
		}
		if cur == nil {
			continue
		}
		// labels (possibly followed by an instruction)
		for {
			m := regexp.MustCompile(`^([A-Za-z_][A-Za-z0-9_]*):\s*(.*)$`).FindStringSubmatch(line)
			if m == nil {
				break
			}
			cur.labels[m[1]] = len(cur.instrs)
			line = strings.TrimSpace(m[2])
		}
		if line == "" {
			continue
		}
		f := strings.SplitN(line, "\t", 2)
		if len(f) == 1 {
			f = strings.SplitN(line, " ", 2)
		}
		in := asmInstr{op: strings.TrimSpace(f[0]), line: ln + 1, text: line}
		if len(f) > 1 {
			for _, a := range strings.Split(f[1], ",") {
				o, err := parseOperand(a, defs)
				if err != nil {
					return fmt.Errorf("%s:%d: %v", path, ln+1, err)
				}
				in.args = append(in.args, o)
			}
		}
		cur.instrs = append(cur.instrs, in)
	}
	return nil
}

// ---------------------------------------------------------------- machine state

// aptr is a pointer value in a register: a cell of a gosym object with the
// extent of the slice it derives from (for bounds checks).
type aptr struct {
	obj      *Object
	byteOff  int64
	loB, hiB int64 // valid byte range [loB, hiB)
	table    bool  // ·pow10DivTab64
}

type aval struct {
	t *term.Term
	p *aptr
}

type aflags struct {
	cf, zf, sf, of *term.Term // nil = undefined
}

type amach struct {
	p     *Path
	prog  *asmProgram
	regs  map[string]aval
	fl    aflags
	frame map[int64]aval
	steps int
	table *Object
}

func (x *Exec) asmProgram() (*asmProgram, error) {
	x.asmOnce.Do(func() {
		prog := &asmProgram{funcs: map[string]*asmFunc{}}
		for _, f := range []string{"dec_arith_amd64.s", "arith_amd64.s"} {
			path := filepath.Join(x.RepoDir, f)
			if err := parseAsmFile(path, prog); err != nil {
				x.asmErr = err
				return
			}
			prog.files = append(prog.files, f)
		}
		x.asmProg = prog
	})
	return x.asmProg, x.asmErr
}

func (m *amach) fail(format string, a ...interface{}) {
	panic(engineErr{"p9sym: " + fmt.Sprintf(format, a...)})
}

var full64 = new(big.Int).Sub(term.Pow2(64), big.NewInt(1))

func (m *amach) maskOf(c *term.Term) *term.Term {
	return m.p.C.Ite(c, m.p.C.Const(full64), m.p.C.Int(0))
}

func (m *amach) b2i(c *term.Term) *term.Term { return m.p.C.Ite(c, m.p.C.Int(1), m.p.C.Int(0)) }

func (m *amach) reg(name string) aval {
	v, ok := m.regs[name]
	if !ok {
		m.fail("read of uninitialised register %s", name)
	}
	return v
}

func (m *amach) addr(o asmOperand) *aptr {
	b := m.reg(o.base)
	if b.p == nil {
		m.fail("memory operand with a non-pointer base register %s", o.base)
	}
	off := b.p.byteOff + o.disp
	if o.index != "" {
		iv := m.reg(o.index)
		if iv.p != nil || !iv.t.IsConst() {
			m.fail("non-constant index register %s", o.index)
		}
		idx := iv.t.C
		if idx.Cmp(term.Pow2(63)) >= 0 {
			idx = new(big.Int).Sub(idx, term.Pow2(64))
		}
		off += idx.Int64() * o.scale
	}
	np := *b.p
	np.byteOff = off
	return &np
}

func (m *amach) load(o asmOperand, in asmInstr) aval {
	switch o.kind {
	case "imm":
		v := o.imm
		if v.Sign() < 0 {
			v = new(big.Int).Add(v, term.Pow2(64))
		}
		return aval{t: m.p.C.Const(v)}
	case "reg":
		return m.reg(o.reg)
	case "fp":
		v, ok := m.frame[o.fpOff]
		if !ok {
			m.fail("read of unknown frame slot %s+%d(FP)", o.fpNm, o.fpOff)
		}
		return v
	case "mem":
		a := m.addr(o)
		return aval{t: m.loadMem(a, 8, in)}
	}
	m.fail("cannot load operand kind %s in %q", o.kind, in.text)
	return aval{}
}

func (m *amach) loadMem(a *aptr, size int64, in asmInstr) *term.Term {
	if a.table {
		// ·pow10DivTab64: array of struct{d, m uint64; pre, post byte}, stride 24 bytes
		idx, fo := a.byteOff/24, a.byteOff%24
		if a.byteOff < 0 || idx*4+3 >= int64(len(m.table.Cells)) {
			m.p.failNow("C07.asm.bounds", fmt.Sprintf("table access out of range in %q", in.text))
			panic(abortPath{"asm table bounds"})
		}
		d, mm := m.table.Cells[idx*4].(*term.Term), m.table.Cells[idx*4+1].(*term.Term)
		pre, post := m.table.Cells[idx*4+2].(*term.Term), m.table.Cells[idx*4+3].(*term.Term)
		switch {
		case fo == 0 && size == 8:
			return d
		case fo == 8 && size == 8:
			return mm
		case fo == 16 && size == 2:
			return m.p.C.Add(pre, m.p.C.MulC(post, big.NewInt(256)))
		}
		m.fail("unsupported table access at offset %d size %d", a.byteOff, size)
	}
	if size != 8 || a.byteOff%8 != 0 {
		m.fail("unaligned or non-quadword access in %q", in.text)
	}
	if a.byteOff < a.loB || a.byteOff+8 > a.hiB {
		m.p.failNow("C07.asm.bounds", fmt.Sprintf("load outside the slice extent [%d,%d) at byte %d in %q (line %d)", a.loB, a.hiB, a.byteOff, in.text, in.line))
		panic(abortPath{"asm load out of bounds"})
	}
	return a.obj.Cells[a.byteOff/8].(*term.Term)
}

func (m *amach) store(o asmOperand, v aval, in asmInstr) {
	switch o.kind {
	case "reg":
		m.regs[o.reg] = v
	case "fp":
		m.frame[o.fpOff] = v
	case "mem":
		a := m.addr(o)
		if a.table {
			m.fail("store into the constant table")
		}
		if a.byteOff%8 != 0 {
			m.fail("unaligned store in %q", in.text)
		}
		if a.byteOff < a.loB || a.byteOff+8 > a.hiB {
			m.p.failNow("C07.asm.bounds", fmt.Sprintf("store outside the slice extent [%d,%d) at byte %d in %q (line %d)", a.loB, a.hiB, a.byteOff, in.text, in.line))
			panic(abortPath{"asm store out of bounds"})
		}
		if v.p != nil {
			m.fail("store of a pointer")
		}
		a.obj.Cells[a.byteOff/8] = v.t
	default:
		m.fail("cannot store to operand kind %s", o.kind)
	}
}

func (m *amach) flagBit(f *term.Term, name string, in asmInstr) *term.Term {
	if f == nil {
		m.fail("use of undefined flag %s in %q (line %d)", name, in.text, in.line)
	}
	return f
}

// setArith sets flags for an add/sub-like result: res is the mathematical
// result (before wrapping), a and b the unsigned operands.
func (m *amach) setLogic(r *term.Term) {
	C := m.p.C
	m.fl = aflags{cf: C.False, of: C.False, zf: C.Eq(r, C.Int(0)), sf: C.Ge(r, C.Const(term.Pow2(63)))}
}

func (m *amach) signed(a *term.Term) *term.Term {
	C := m.p.C
	return C.Ite(C.Ge(a, C.Const(term.Pow2(63))), C.AddC(a, new(big.Int).Neg(term.Pow2(64))), a)
}

func (m *amach) intv(v aval, in asmInstr) *term.Term {
	if v.p != nil {
		m.fail("pointer used as integer in %q", in.text)
	}
	return v.t
}

// run executes the TEXT block name until RET.
func (m *amach) run(name string) {
	C := m.p.C
	fn := m.prog.funcs[name]
	if fn == nil {
		m.fail("TEXT %s not found", name)
	}
	pc := 0
	for {
		if pc >= len(fn.instrs) {
			m.fail("fell off the end of %s", name)
		}
		in := fn.instrs[pc]
		pc++
		m.steps++
		if m.steps > 200000 {
			m.fail("step budget exceeded in %s", name)
		}
		jump := func(taken *term.Term) {
			tgt := in.args[0]
			if m.p.decide(taken, fmt.Sprintf("asm:%s:%d", fn.file, in.line)) {
				if tgt.kind == "sym" {
					m.run(tgt.sym)
					pc = -1
					return
				}
				idx, ok := fn.labels[tgt.sym]
				if !ok {
					m.fail("unknown label %s", tgt.sym)
				}
				pc = idx
			}
		}
		switch in.op {
		case "RET":
			return
		case "MOVQ":
			m.store(in.args[1], m.load(in.args[0], in), in)
		case "MOVWLZX":
			a := m.addr(in.args[0])
			m.store(in.args[1], aval{t: m.loadMem(a, 2, in)}, in)
		case "LEAQ":
			src := in.args[0]
			if src.kind == "sym" {
				if src.sym != "pow10DivTab64" {
					m.fail("LEAQ of unknown symbol %s", src.sym)
				}
				m.store(in.args[1], aval{p: &aptr{table: true}}, in)
				break
			}
			b := m.reg(src.base)
			if b.p != nil {
				m.store(in.args[1], aval{p: m.addr(src)}, in)
				break
			}
			t := C.AddC(b.t, big.NewInt(src.disp))
			if src.index != "" {
				t = C.Add(t, C.MulC(m.intv(m.reg(src.index), in), big.NewInt(src.scale)))
			}
			m.store(in.args[1], aval{t: C.WrapU(t, 64)}, in)
		case "ADDQ", "ADCQ":
			a := m.load(in.args[0], in)
			d := m.load(in.args[1], in)
			if d.p != nil || a.p != nil {
				m.fail("pointer arithmetic with ADDQ in %q", in.text)
			}
			s := C.Add(a.t, d.t)
			ss := C.Add(m.signed(a.t), m.signed(d.t))
			if in.op == "ADCQ" {
				c := m.b2i(m.flagBit(m.fl.cf, "CF", in))
				s = C.Add(s, c)
				ss = C.Add(ss, c)
			}
			r := C.WrapU(s, 64)
			m.fl = aflags{cf: C.Ge(s, C.Const(term.Pow2(64))), zf: C.Eq(r, C.Int(0)), sf: C.Ge(r, C.Const(term.Pow2(63))),
				of: C.Or(C.Ge(ss, C.Const(term.Pow2(63))), C.Lt(ss, C.Const(new(big.Int).Neg(term.Pow2(63)))))}
			m.store(in.args[1], aval{t: r}, in)
		case "SUBQ", "SBBQ", "CMPQ":
			if in.op == "SBBQ" && in.args[0].kind == "reg" && in.args[1].kind == "reg" && in.args[0].reg == in.args[1].reg {
				// SBBQ r, r == -CF
				cf := m.flagBit(m.fl.cf, "CF", in)
				r := m.maskOf(cf)
				m.fl = aflags{cf: cf, zf: C.Not(cf), sf: cf, of: C.False}
				m.store(in.args[1], aval{t: r}, in)
				break
			}
			var a, d aval
			if in.op == "CMPQ" {
				// CMPQ a, b computes a - b
				d = m.load(in.args[0], in)
				a = m.load(in.args[1], in)
			} else {
				a = m.load(in.args[0], in)
				d = m.load(in.args[1], in)
			}
			if in.op == "CMPQ" && (a.p != nil || d.p != nil) {
				if a.p == nil || d.p == nil {
					m.fail("comparison of a pointer with an integer")
				}
				eq := a.p.obj == d.p.obj && a.p.byteOff == d.p.byteOff
				m.fl = aflags{zf: C.BoolC(eq)}
				break
			}
			if in.op == "SBBQ" && in.args[0].kind == "reg" && in.args[1].kind == "reg" && in.args[0].reg == in.args[1].reg {
				// SBBQ r, r == -CF
				cf := m.flagBit(m.fl.cf, "CF", in)
				r := m.maskOf(cf)
				m.fl = aflags{cf: cf, zf: C.Not(cf), sf: cf, of: C.False}
				m.store(in.args[1], aval{t: r}, in)
				break
			}
			var df, sub *term.Term
			if in.op == "CMPQ" {
				df, sub = d.t, a.t // first minus second: d - a
			} else {
				df, sub = d.t, a.t // dest - src
			}
			s := C.Sub(df, sub)
			ss := C.Sub(m.signed(df), m.signed(sub))
			if in.op == "SBBQ" {
				c := m.b2i(m.flagBit(m.fl.cf, "CF", in))
				s = C.Sub(s, c)
				ss = C.Sub(ss, c)
			}
			r := C.WrapU(s, 64)
			m.fl = aflags{cf: C.Lt(s, C.Int(0)), zf: C.Eq(r, C.Int(0)), sf: C.Ge(r, C.Const(term.Pow2(63))),
				of: C.Or(C.Ge(ss, C.Const(term.Pow2(63))), C.Lt(ss, C.Const(new(big.Int).Neg(term.Pow2(63)))))}
			if in.op != "CMPQ" {
				m.store(in.args[1], aval{t: r}, in)
			}
		case "NEGQ":
			d := m.intv(m.load(in.args[0], in), in)
			r := C.WrapU(C.Neg(d), 64)
			m.fl = aflags{cf: C.Ne(d, C.Int(0)), zf: C.Eq(r, C.Int(0)), sf: C.Ge(r, C.Const(term.Pow2(63))), of: C.Eq(d, C.Const(term.Pow2(63)))}
			m.store(in.args[0], aval{t: r}, in)
		case "NOTQ":
			d := m.intv(m.load(in.args[0], in), in)
			m.store(in.args[0], aval{t: C.Sub(C.Const(full64), d)}, in)
		case "ANDQ", "ORQ", "XORQ", "TESTQ":
			if in.op == "XORQ" && in.args[0].kind == "reg" && in.args[1].kind == "reg" && in.args[0].reg == in.args[1].reg {
				m.setLogic(C.Int(0))
				m.store(in.args[1], aval{t: C.Int(0)}, in)
				break
			}
			a := m.intv(m.load(in.args[0], in), in)
			var d *term.Term
			if in.op == "XORQ" && in.args[0].kind == "reg" && in.args[1].kind == "reg" && in.args[0].reg == in.args[1].reg {
				d = a
			} else {
				d = m.intv(m.load(in.args[1], in), in)
			}
			var r *term.Term
			switch in.op {
			case "ANDQ", "TESTQ":
				if a == d {
					r = a
				} else {
					r = C.BitAnd(a, d, 64)
				}
			case "ORQ":
				r = C.BitOr(a, d, 64)
			case "XORQ":
				if a == d {
					r = C.Int(0)
				} else {
					r = C.BitXor(a, d, 64)
				}
			}
			m.setLogic(r)
			if in.op != "TESTQ" {
				m.store(in.args[1], aval{t: r}, in)
			}
		case "SHRQ", "SARQ":
			cnt := m.intv(m.load(in.args[0], in), in)
			if !cnt.IsConst() {
				m.fail("symbolic shift count in %q", in.text)
			}
			k := int(new(big.Int).Mod(cnt.C, big.NewInt(64)).Int64()) // count taken from CL, masked to 6 bits
			if in.args[0].kind == "reg" {
				k = int(new(big.Int).Mod(new(big.Int).Mod(cnt.C, big.NewInt(256)), big.NewInt(64)).Int64())
			}
			d := m.intv(m.load(in.args[1], in), in)
			var r *term.Term
			if in.op == "SHRQ" {
				r = C.DivC(d, term.Pow2(k))
			} else {
				r = C.WrapU(C.DivC(m.signed(d), term.Pow2(k)), 64)
			}
			m.fl = aflags{} // undefined for our purposes
			m.store(in.args[1], aval{t: r}, in)
		case "RORW":
			cnt := m.load(in.args[0], in).t
			d := m.intv(m.load(in.args[1], in), in)
			if !cnt.IsConst() || cnt.C.Int64() != 8 || !d.IsConst() {
				m.fail("RORW supported only as a constant byte swap: %q", in.text)
			}
			v := d.C.Uint64()
			lo16 := v & 0xffff
			sw := (lo16>>8 | lo16<<8) & 0xffff
			m.fl = aflags{}
			m.store(in.args[1], aval{t: C.Uint(v&^0xffff | sw)}, in)
		case "MULQ":
			a := m.intv(m.reg("AX"), in)
			s := m.intv(m.load(in.args[0], in), in)
			if !a.IsConst() && !s.IsConst() {
				m.p.nonlinear = true
				a, s = m.p.resolveSem(a), m.p.resolveSem(s)
			}
			pr := C.Mul(a, s)
			m.regs["AX"] = aval{t: C.ModC(pr, term.Pow2(64))}
			m.regs["DX"] = aval{t: C.DivC(pr, term.Pow2(64))}
			m.fl = aflags{}
		case "DIVQ":
			lo := m.intv(m.reg("AX"), in)
			hi := m.intv(m.reg("DX"), in)
			y := m.intv(m.load(in.args[0], in), in)
			// #DE when y == 0 or the quotient does not fit: an obligation
			m.p.assert("C07.asm.divide", C.And(C.Ne(y, C.Int(0)), C.Lt(hi, y)), fmt.Sprintf("DIVQ operands (line %d)", in.line))
			if !y.IsConst() {
				m.p.nonlinear = true
			}
			n := C.Add(C.MulC(hi, term.Pow2(64)), lo)
			m.regs["AX"] = aval{t: C.Div(n, y)}
			m.regs["DX"] = aval{t: C.Mod(n, y)}
			m.fl = aflags{}
		case "JMP":
			tgt := in.args[0]
			if tgt.kind == "sym" {
				m.run(tgt.sym) // tail call: returns through its RET
				return
			}
			idx, ok := fn.labels[tgt.sym]
			if !ok {
				m.fail("unknown label %s", tgt.sym)
			}
			pc = idx
		case "JEQ", "JE":
			jump(m.flagBit(m.fl.zf, "ZF", in))
		case "JNE":
			jump(C.Not(m.flagBit(m.fl.zf, "ZF", in)))
		case "JCC", "JAE":
			jump(C.Not(m.flagBit(m.fl.cf, "CF", in)))
		case "JCS", "JB":
			jump(m.flagBit(m.fl.cf, "CF", in))
		case "JL", "JLT":
			jump(C.Not(C.Iff(m.flagBit(m.fl.sf, "SF", in), m.flagBit(m.fl.of, "OF", in))))
		case "JGE":
			jump(C.Iff(m.flagBit(m.fl.sf, "SF", in), m.flagBit(m.fl.of, "OF", in)))
		case "JLE":
			jump(C.Or(m.flagBit(m.fl.zf, "ZF", in), C.Not(C.Iff(m.flagBit(m.fl.sf, "SF", in), m.flagBit(m.fl.of, "OF", in)))))
		case "JG", "JGT":
			jump(C.And(C.Not(m.flagBit(m.fl.zf, "ZF", in)), C.Iff(m.flagBit(m.fl.sf, "SF", in), m.flagBit(m.fl.of, "OF", in))))
		case "REP;", "REP":
			// REP; MOVSQ with the direction flag clear (Go's ABI guarantee): CX quadwords are copied from
			// [SI] to [DI] in ASCENDING address order, one at a time (overlap is therefore significant)
			if !strings.Contains(in.text, "MOVSQ") {
				m.fail("unsupported string instruction %q (line %d of %s)", in.text, in.line, fn.file)
			}
			cnt := m.intv(m.reg("CX"), in)
			if !cnt.IsConst() {
				m.fail("REP; MOVSQ with a symbolic count (line %d)", in.line)
			}
			src, dst := m.reg("SI").p, m.reg("DI").p
			if src == nil || dst == nil {
				m.fail("REP; MOVSQ without pointer operands (line %d)", in.line)
			}
			sp, dp := *src, *dst
			for i := int64(0); i < cnt.C.Int64(); i++ {
				v := m.loadMem(&sp, 8, in)
				if dp.table || dp.byteOff%8 != 0 {
					m.fail("bad REP; MOVSQ destination")
				}
				if dp.byteOff < dp.loB || dp.byteOff+8 > dp.hiB {
					m.p.failNow("C07.asm.bounds", fmt.Sprintf("store outside the slice extent [%d,%d) at byte %d in %q (line %d)", dp.loB, dp.hiB, dp.byteOff, in.text, in.line))
					panic(abortPath{"asm store out of bounds"})
				}
				dp.obj.Cells[dp.byteOff/8] = v
				sp.byteOff += 8
				dp.byteOff += 8
			}
			m.regs["SI"], m.regs["DI"] = aval{p: &sp}, aval{p: &dp}
			m.regs["CX"] = aval{t: C.Int(0)}
		default:
			m.fail("unsupported instruction %q (line %d of %s)", in.text, in.line, fn.file)
		}
		if pc == -1 {
			return
		}
	}
}

// asmCall runs the assembly routine `name` with the Go arguments args (ABI0
// layout) and returns the result values.
func (p *Path) asmCall(name string, fn *ssa.Function, args []Value) (Value, *Panic) {
	prog, err := p.X.asmProgram()
	if err != nil {
		panic(engineErr{"p9sym: " + err.Error()})
	}
	m := &amach{p: p, prog: prog, regs: map[string]aval{}, frame: map[int64]aval{}}
	if tg := p.X.Pkgs["decimal"].Var("pow10DivTab64"); tg != nil {
		m.table = p.global(tg)
	}
	off := int64(0)
	for _, a := range args {
		switch v := a.(type) {
		case SliceV:
			var pv aval
			if v.Obj != nil {
				pv = aval{p: &aptr{obj: v.Obj, byteOff: int64(v.Off) * 8, loB: int64(v.Off) * 8, hiB: int64(v.Off+v.Cap) * 8}}
			} else {
				pv = aval{t: p.C.Int(0)}
			}
			m.frame[off] = pv
			m.frame[off+8] = aval{t: p.C.Int(int64(v.Len))}
			m.frame[off+16] = aval{t: p.C.Int(int64(v.Cap))}
			off += 24
		case *term.Term:
			m.frame[off] = aval{t: v}
			off += 8
		default:
			panic(engineErr{fmt.Sprintf("p9sym: unsupported argument type %T", a)})
		}
	}
	nres := fn.Signature.Results().Len()
	resOff := off
	m.run(name)
	var res TupleV
	for i := 0; i < nres; i++ {
		v, ok := m.frame[resOff+int64(8*i)]
		if !ok {
			panic(engineErr{fmt.Sprintf("p9sym: result slot %d of %s was not written", i, name)})
		}
		if v.p != nil {
			panic(engineErr{"p9sym: pointer result"})
		}
		res = append(res, v.t)
	}
	p.X.noteContract("asm:" + name)
	if nres == 1 {
		return res[0], nil
	}
	return res, nil
}
