package main

import (
	"flag"
	"fmt"
	"os"
	"strconv"
	"strings"
	"time"

	"verif/engine/props"
	"verif/engine/sym"
)

func usage() {
	fmt.Fprintln(os.Stderr, `usage:
  gosym dev   -harness H_x [-cfg k=v,k=v] [-v]     run one harness configuration (development)
  gosym check -prop C01 -tier quick|thorough       run a property check (writes evidence)
  gosym replay -prop C01 -file path                replay a recorded counterexample natively
  gosym selfcheck                                  translator validation (setup)`)
	os.Exit(2)
}

func main() {
	if len(os.Args) < 2 {
		usage()
	}
	switch os.Args[1] {
	case "dev":
		dev(os.Args[2:])
	case "check":
		os.Exit(props.CheckMain(os.Args[2:]))
	case "replay":
		os.Exit(props.ReplayMain(os.Args[2:]))
	case "manifest":
		os.Exit(props.ManifestMain(os.Args[2:]))
	case "selfcheck":
		os.Exit(props.SelfcheckMain(os.Args[2:]))
	default:
		usage()
	}
}

func dev(args []string) {
	fs := flag.NewFlagSet("dev", flag.ExitOnError)
	harness := fs.String("harness", "", "harness function")
	pkg := fs.String("pkg", "decimal", "package (decimal|context)")
	cfgs := fs.String("cfg", "", "k=v,k=v")
	verbose := fs.Bool("v", false, "verbose")
	workers := fs.Int("j", 8, "workers")
	nomerge := fs.Bool("nomerge", false, "disable ite merging")
	timeout := fs.Duration("timeout", 60*time.Second, "solver timeout per query")
	obl := fs.String("obl", "", "obligation prefixes, comma separated")
	contracts := fs.String("contracts", "default", "contracts to use (comma separated, 'none', 'default')")
	confine := fs.Bool("confine", false, "confinement mode")
	jobwall := fs.Duration("jobwall", 0, "wall-clock budget of the job (0 = none)")
	fs.Parse(args)
	cfg := map[string]int64{}
	if *cfgs != "" {
		for _, kv := range strings.Split(*cfgs, ",") {
			p := strings.SplitN(kv, "=", 2)
			v, err := strconv.ParseInt(p[1], 10, 64)
			if err != nil {
				fmt.Fprintln(os.Stderr, "bad cfg:", kv)
				os.Exit(2)
			}
			cfg[p[0]] = v
		}
	}
	l, err := sym.Load(props.DefaultLoad())
	if err != nil {
		fmt.Fprintln(os.Stderr, err)
		os.Exit(2)
	}
	fmt.Printf("loaded in %v\n", l.LoadTime)
	x := sym.NewExec(l)
	x.Verbose = *verbose
	x.NoMerge = *nomerge
	x.Timeout = *timeout
	x.JobWall = *jobwall
	props.SetContracts(x, *contracts)
	job := &sym.Job{Pkg: *pkg, Harness: *harness, Cfg: cfg, Confine: *confine}
	if *obl != "" {
		job.Obl = strings.Split(*obl, ",")
	}
	t0 := time.Now()
	res := x.RunJobs([]*sym.Job{job}, *workers)
	for _, r := range res {
		props.PrintJobResult(os.Stdout, r, true)
	}
	fmt.Printf("wall %v\n", time.Since(t0))
}
