; weaker, pure FP: sqrt(x)*sqrt(x) is within 2 ulp-ish of x :  fp.leq |s*s - x| <= x*2^-51
(set-logic QF_FP)
(declare-const x (_ FloatingPoint 11 53))
(assert (fp.leq ((_ to_fp 11 53) RNE 0.01) x))
(assert (fp.lt x ((_ to_fp 11 53) RNE 10.0)))
(define-fun s () (_ FloatingPoint 11 53) (fp.sqrt RNE x))
(define-fun d () (_ FloatingPoint 11 53) (fp.abs (fp.sub RNE (fp.mul RNE s s) x)))
(assert (not (fp.leq d (fp.mul RNE x ((_ to_fp 11 53) RNE 0.000000000000001)))))
(check-sat)
