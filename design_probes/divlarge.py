# hand model of dec.divLarge for len(v)=n (2 or 3), len(u)=m : normalise by d=D/(v_top+1), Knuth D steps, r/d
import time,sys
from z3 import *
D=10**19
n=int(sys.argv[1]); m=int(sys.argv[2]); T=int(sys.argv[3])
s=Solver(); s.set("timeout",T*1000)
def W(p,k):
    ws=[Int(f"{p}{i}") for i in range(k)]
    for w in ws: s.add(w>=0,w<D)
    return ws
def val(ws): return sum(w*D**i for i,w in enumerate(ws))
vin=W('vi',n); uin=W('ui',m)
s.add(vin[-1]>=1, uin[-1]>=1)
s.add(val(uin)>=val(vin))            # div() only calls divLarge when u >= v
# D1: d = D / (vtop+1)
d,dr=Ints('d dr'); s.add(D==d*(vin[-1]+1)+dr, dr>=0, dr<vin[-1]+1)
# v = vin*d (mulAdd10VWW contract: value identity, no carry out since d*(vtop+1)<=D)
v=W('v',n); s.add(val(v)==val(vin)*d)
u=W('u',m+1); s.add(val(u)==val(uin)*d)
V=val(v)
s.add(v[-1]>=D//2)  # consequence of normalisation -- ask separately below
q=[None]*(m-n+1)
cur=list(u)  # little endian, length m+1
unw=[]
for j in range(m-n,-1,-1):
    ujn=cur[j+n]; ujn1=cur[j+n-1]; ujn2=cur[j+n-2]
    q0,r0=Int(f"q0_{j}"),Int(f"r0_{j}")
    eqtop = ujn==v[-1]
    s.add(Implies(Not(eqtop), And(ujn*D+ujn1==q0*v[-1]+r0, r0>=0, r0<v[-1])))
    qq,rr=q0,r0; alive=Not(eqtop)
    for it in range(3):
        c=And(alive, qq*v[-2] > rr*D+ujn2)
        qq2=If(c,qq-1,qq); rr2=If(c,rr+v[-1],rr)
        alive=And(c, rr+v[-1] < 2**64)
        qq,rr=qq2,rr2
    unw.append(And(alive, qq*v[-2] > rr*D+ujn2))
    qhat=If(eqtop,D-1,qq)
    win=sum(cur[j+i]*D**i for i in range(n+1))
    rem=win-qhat*V
    qf=If(rem<0,qhat-1,qhat); rf=If(rem<0,rem+V,rem)
    # new window words (contract of sub10VV/add10VV: value identity, words<D)
    nw=W(f"w{j}_",n+1)
    s.add(val(nw)==rf)
    for i in range(n+1): cur[j+i]=nw[i]
    q[j]=qf
Q=sum(q[j]*D**j for j in range(len(q)))
R=val(cur)
# r = R / d  (divW contract)
rq,rrem=Ints('rq rrem'); s.add(R==rq*d+rrem, rrem>=0, rrem<d)
U=val(uin); Vin=val(vin)
goal=And(U==Q*Vin+rq, rq>=0, rq<Vin, rrem==0, *[And(x>=0,x<D) for x in q])
s.add(Or(Or(*unw), Not(goal)))
t=time.time(); r=s.check(); print(n,m,r,round(time.time()-t,2))
