# divLarge with a cut (assert invariant, havoc, assume invariant) at the head of divBasic's loop
import time,sys
from z3 import *
D=10**19
n=int(sys.argv[1]); m=int(sys.argv[2]); T=int(sys.argv[3])
facts=[]   # assumptions carried across cuts
def mk(): 
    s=Solver(); s.set("timeout",T*1000); s.add(*facts); return s
def W(p,k):
    ws=[Int(f"{p}{i}") for i in range(k)]
    for w in ws: facts.append(And(w>=0,w<D))
    return ws
def val(ws): return sum(w*D**i for i,w in enumerate(ws))
def prove(name, extra, goal):
    s=mk(); s.add(*extra); s.add(Not(goal)); t=time.time(); r=s.check(); print(f"  {name}: {r} {time.time()-t:.2f}s"); return r
vin=W('vi',n); uin=W('ui',m)
facts += [vin[-1]>=1, uin[-1]>=1, val(uin)>=val(vin)]
d,dr=Ints('d dr'); facts += [D==d*(vin[-1]+1)+dr, dr>=0, dr<vin[-1]+1]
v=W('v',n); facts.append(val(v)==val(vin)*d)
u=W('u',m+1); facts.append(val(u)==val(uin)*d)
V=val(v)
prove("normalised v_top >= D/2", [], v[-1]>=D//2)
facts.append(v[-1]>=D//2)
cur=list(u); q={}
# initial invariant: the (virtual) window above the top is < V : top n words of u, shifted, < V
top=sum(cur[m+1-n+i]*D**i for i in range(n))
prove("init window < V", [], top < V)
facts.append(top<V)
for j in range(m-n,-1,-1):
    ujn=cur[j+n]; ujn1=cur[j+n-1]; ujn2=cur[j+n-2]
    q0,r0=Int(f"q0_{j}"),Int(f"r0_{j}")
    eqtop = ujn==v[-1]
    step=[Implies(Not(eqtop), And(ujn*D+ujn1==q0*v[-1]+r0, r0>=0, r0<v[-1]))]
    qq,rr=q0,r0; alive=Not(eqtop)
    for it in range(3):
        c=And(alive, qq*v[-2] > rr*D+ujn2)
        qq2=If(c,qq-1,qq); rr2=If(c,rr+v[-1],rr)
        alive=And(c, rr+v[-1] < 2**64)
        qq,rr=qq2,rr2
    unw=And(alive, qq*v[-2] > rr*D+ujn2)
    qhat=If(eqtop,D-1,qq)
    win=sum(cur[j+i]*D**i for i in range(n+1))
    rem=win-qhat*V
    qf=If(rem<0,qhat-1,qhat); rf=If(rem<0,rem+V,rem)
    prove(f"step j={j}", step, And(Not(unw), qf>=0, qf<D, rf>=0, rf<V))
    # cut: havoc
    qj=Int(f"q{j}"); nw=W(f"w{j}_",n+1)
    facts += [qj>=0,qj<D, win==qj*V+val(nw), val(nw)<V]
    for i in range(n+1): cur[j+i]=nw[i]
    q[j]=qj
Q=sum(q[j]*D**j for j in q); R=val(cur)
rq,rrem=Ints('rq rrem'); facts += [R==rq*d+rrem, rrem>=0, rrem<d]
U=val(uin); Vin=val(vin)
prove("final", [], And(U==Q*Vin+rq, rq>=0, rq<Vin, rrem==0))
