import time,sys
from z3 import *
D=10**19
u3,u2,u1,u0,v2,v1,v0=Ints('u3 u2 u1 u0 v2 v1 v0')
s=Solver()
s.set("timeout", int(sys.argv[1])*1000)
for w in (u3,u2,u1,u0,v2,v1,v0): s.add(w>=0,w<D)
s.add(v2>=D//2)
V=v2*D*D+v1*D+v0
s.add(u3*D*D+u2*D+u1 < V)
W=u3*D**3+u2*D*D+u1*D+u0
q0,r0=Ints('q0 r0')
s.add(u3*D+u2==q0*v2+r0, r0>=0, r0<v2)
eqtop = u3==v2
def gt(q,r): return q*v1 > r*D+u1
q=q0; r=r0
alive=Not(eqtop)
for i in range(3):
    c=And(alive, gt(q,r))
    q2=If(c,q-1,q); r2=If(c,r+v2,r)
    alive=And(c, r+v2 < 2**64)
    q,r=q2,r2
unwound=And(alive, gt(q,r))
qhat=If(eqtop, D-1, q)
rem=W-qhat*V
mode=sys.argv[2]
if mode=="full":
    qf=If(rem<0,qhat-1,qhat); rf=If(rem<0,rem+V,rem)
    s.add(Or(unwound, Not(And(rf>=0, rf<V, qf>=0, qf<D))))
elif mode=="addback":
    s.add(rem<0)
t=time.time(); r=s.check(); print(r, time.time()-t)
if r==sat: print(s.model())
