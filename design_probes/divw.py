import time,sys
from z3 import *
D=10**19
n=int(sys.argv[1])
xs=[Int(f"x{i}") for i in range(n)]; y=Int('y')
s=Solver(); s.set("timeout",120000)
for w in xs+[y]: s.add(w>=0,w<D)
s.add(y>0)
r=0; qs=[]
for i in reversed(range(n)):
    q=Int(f"q{i}"); rr=Int(f"r{i}")
    s.add(r*D+xs[i]==q*y+rr, rr>=0, rr<y)
    qs.append((i,q)); r=rr
Q=sum(q*D**i for i,q in qs); X=sum(x*D**i for i,x in enumerate(xs))
s.add(Or(Q!=X/y, r!=X%y))
t=time.time(); print(n, s.check(), time.time()-t)
