import sys
tab=[(10,0xcccccccccccccccd,0,3),(100,0xa3d70a3d70a3d70b,1,5),(1000,0x83126e978d4fdf3c,1,8),(10000,0xd1b71758e219652c,0,13),(100000,0xa7c5ac471b478424,1,15),(1000000,0x8637bd05af6c69b6,0,19),(10000000,0xd6bf94d5e57a42bd,1,22),(100000000,0xabcc77118461cefd,0,26),(1000000000,0x89705f4136b4a598,1,28),(10000000000,0xdbe6fecebdedd5bf,0,33),(100000000000,0xafebff0bcb24aaff,0,36),(1000000000000,0x8cbccc096f5088cc,0,39),(10000000000000,0xe12e13424bb40e14,1,42),(100000000000000,0xb424dc35095cd810,1,45),(1000000000000000,0x901d7cf73ab0acda,1,48),(10000000000000000,0xe69594bec44de15c,1,52),(100000000000000000,0xb877aa3236a4b44a,1,55),(1000000000000000000,0x9392ee8e921d5d08,1,58)]
k=int(sys.argv[1]); mode=sys.argv[2]
d,m,pre,post=tab[k]
def bv(v,w): return "(_ bv%d %d)"%(v,w)
print("(set-logic QF_BV)")
print("(declare-const n (_ BitVec 64))")
print("(assert (bvult n %s))"%bv(10**19,64))
print("(define-fun p () (_ BitVec 128) (bvmul ((_ zero_extend 64) (bvlshr n %s)) %s))"%(bv(pre,64),bv(m,128)))
print("(define-fun q () (_ BitVec 64) (bvlshr ((_ extract 127 64) p) %s))"%bv(post,64))
print("(define-fun r () (_ BitVec 64) (bvsub n (bvmul q %s)))"%bv(d,64))
if mode=="udiv":
    print("(assert (not (and (= q (bvudiv n %s)) (= r (bvurem n %s)))))"%(bv(d,64),bv(d,64)))
else:
    # q*d <= n < q*d + d in 128 bit
    print("(define-fun qd () (_ BitVec 128) (bvmul ((_ zero_extend 64) q) %s))"%bv(d,128))
    print("(assert (not (and (bvule qd ((_ zero_extend 64) n)) (bvult ((_ zero_extend 64) n) (bvadd qd %s)))))"%bv(d,128))
print("(check-sat)")
