import time,sys
from z3 import *
D=10**19
def words(p,n): return [Int(f"{p}{i}") for i in range(n)]
n=int(sys.argv[1])  # words per half
x0=words('x0_',n); x1=words('x1_',n); y0=words('y0_',n); y1=words('y1_',n)
s=Solver(); s.set("timeout",int(sys.argv[2])*1000)
for w in x0+x1+y0+y1: s.add(w>=0,w<D)
def val(ws): return sum(w*D**i for i,w in enumerate(ws))
# xd = |x1-x0| as fresh words with contract of sub10VV ; s sign
xd=words('xd_',n); yd=words('yd_',n)
for w in xd+yd: s.add(w>=0,w<D)
bx=Bool('bx'); by=Bool('by')
s.add(bx==(val(x1)<val(x0)), by==(val(y0)<val(y1)))
s.add(val(xd)==If(bx,val(x0)-val(x1),val(x1)-val(x0)))
s.add(val(yd)==If(by,val(y1)-val(y0),val(y0)-val(y1)))
# products via schoolbook monomials
def mulv(a,b): return sum(a[i]*b[j]*D**(i+j) for i in range(len(a)) for j in range(len(b)))
z0=mulv(x0,y0); z2=mulv(x1,y1); p=mulv(xd,yd)
B=D**n
sign=If(bx==by,1,-1)
res=z2*B*B + (z0+z2+sign*p)*B + z0
X=val(x1)*B+val(x0); Y=val(y1)*B+val(y0)
spec=mulv(x0+x1,y0+y1)
s.add(res!=spec)
t=time.time(); r=s.check(); print(n,r,time.time()-t)
