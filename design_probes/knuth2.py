import time,sys
from z3 import *
D=10**19
u2,u1,u0,v1,v0=Ints('u2 u1 u0 v1 v0')
s=Solver()
s.set("timeout", int(sys.argv[1])*1000)
for w in (u2,u1,u0,v1,v0): s.add(w>=0,w<D)
s.add(v1>=D//2)
V=v1*D+v0
s.add(u2*D+u1 < V)   # loop invariant: window top < v  (so quotient word < D)
W=u2*D*D+u1*D+u0
# D3
q0,r0=Ints('q0 r0')
s.add(u2*D+u1==q0*v1+r0, r0>=0, r0<v1)
eqtop = u2==v1
# correction loop unrolled 3 times (only when not eqtop)
def gt(q,r): return q*v0 > r*D+u0   # greaterThan(x1,x2,rhat,ujn2) on double words == compare products
q=q0; r=r0
alive=Not(eqtop)
for i in range(3):
    c=And(alive, gt(q,r))
    q2=If(c,q-1,q); r2=If(c,r+v1,r)
    # rhat overflow break: rhat+v1 >= 2^64 wraps in code: model: break if r+v1 >= 2**64
    alive=And(c, r+v1 < 2**64)
    q,r=q2,r2
# unwinding assertion: loop wouldn't continue
unwound=And(alive, gt(q,r))
qhat=If(eqtop, D-1, q)
# D4: u - qhat*v ; if negative add back
rem=W-qhat*V
qf=If(rem<0,qhat-1,qhat); rf=If(rem<0,rem+V,rem)
s.add(Or(unwound, Not(And(rf>=0, rf<V, qf>=0, qf<D))))
t=time.time(); print(s.check(), time.time()-t)
