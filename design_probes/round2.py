# hand-model of Decimal.round on a 2-word mantissa, p concrete, mode symbolic, vs. wide-int spec
import sys, time
from z3 import *
D=10**19
def run(p, bug=False):
    m1,m0=Ints('m1 m0'); mode=Int('mode'); neg=Bool('neg'); sb=Int('sb')
    s=SolverFor("QF_NIA") if False else Solver()
    s.add(m1>=D//10, m1<D, m0>=0, m0<D, mode>=0, mode<=5, sb>=0, sb<=1)
    digits=38
    assert p<digits
    r=digits-p-1
    def digit(i):
        j,i2=divmod(i,19)
        w=[m0,m1][j]
        return (w/ (10**i2))%10
    def sticky(i):
        j,i2=divmod(i,19)
        if j==0: return If(m0%(10**i2)!=0,1,0)
        return If(Or(m0!=0, m1%(10**i2)!=0),1,0)
    rd=digit(r)
    sbit=If(And(sb==0, Or(rd==0, mode==0)), sticky(r), sb)
    n=(p+18)//19
    if n==1:
        w=[m1]          # after cut
    else:
        w=[m0,m1]
    ntz=n*19-p; lsd=10**ntz
    def dg(i):
        j,i2=divmod(i,19); return (w[j]/(10**i2))%10
    inexact = Or(rd!=0, sbit!=0)
    inc=If(mode==4, neg, If(mode==2, False, If(mode==0, Or(rd>5, And(rd==5, Or(sbit!=0, dg(ntz)%2!=0))), If(mode==1, rd>=5 if not bug else rd>5, If(mode==3, True, Not(neg))))))
    inc=And(inexact, inc)
    # add10VW
    s0=w[0]+If(inc,lsd,0)
    c0=If(s0>=D,1,0); w0=s0-c0*D
    if n==2:
        s1=w[1]+c0; c1=If(s1>=D,1,0); w1=If(c1==1,0,s1)
        carry=c1; out=[w0,w1]
    else:
        carry=c0; out=[w0]
    # mantissa overflow -> top = D/10, exp+1
    top=If(carry==1, D//10, out[-1])
    out[-1]=top
    out[0]=out[0]-out[0]%lsd
    expinc=carry
    # spec
    S=m1*D+m0
    k=digits-p
    q=S/(10**k); rem=S%(10**k)
    half=5*10**(k-1)
    # external sticky (sb) represents extra nonzero below -> rem strictly > any tie
    remnz=Or(rem!=0, sb==1)
    gt=Or(rem>half, And(rem==half, sb==1)); eq=And(rem==half, sb==0)
    incS=And(remnz, If(mode==4, neg, If(mode==2, False, If(mode==0, Or(gt, And(eq, q%2==1)), If(mode==1, Or(gt,eq), If(mode==3, True, Not(neg)))))))
    q2=q+If(incS,1,0)
    ov=q2==10**p
    qf=If(ov, 10**(p-1), q2)
    # result mantissa as integer of n*19 digits
    val = out[0] + (out[1]*D if n==2 else 0)
    expect = qf*(10**(n*19-p))
    s.add(Not(And(val==expect, (expinc==1)==ov)))
    t=time.time(); r=s.check(); return r, time.time()-t, (s.model() if r==sat else None)
for p in [1,5,18,19,20,30,37]:
    print(p, run(p)[:2])
print("bug", run(20,True))
